#!/usr/bin/env python3
"""Seeded breaking changes (written by independent sub-agents, kept under seeded/<name>/).

  ./seeded.py import <name> <property> <agent-worktree>   copy OUT/{patch.diff,demo.rs,notes.md}, find the demo's path
  ./seeded.py verify <name>     in a fresh scratch worktree: suite passes with the patch, demo fails with it and passes without
  ./seeded.py run <name> [Cxx ...]   apply to /repo, run the quick check(s), record the verdicts, revert /repo
  ./seeded.py table             print which checks catch which changes (from the recorded results)

Nothing here is registered in MANIFEST.json; it is the self-validation harness of the checks.
"""
import json
import os
import shutil
import subprocess
import sys
import time

ROOT = os.path.dirname(os.path.abspath(__file__))
SEEDED = os.path.join(ROOT, "seeded")
REPO = os.environ.get("VERIF_REPO", "/repo")
ENV = dict(os.environ, CARGO_NET_OFFLINE="true")


def sh(cmd, cwd=None, timeout=3600):
    p = subprocess.run(cmd, shell=True, cwd=cwd, env=ENV, stdout=subprocess.PIPE, stderr=subprocess.STDOUT, text=True, timeout=timeout)
    return p.returncode, p.stdout


def meta_path(name):
    return os.path.join(SEEDED, name, "meta.json")


def load(name):
    with open(meta_path(name)) as f:
        return json.load(f)


def save(name, m):
    with open(meta_path(name), "w") as f:
        json.dump(m, f, indent=1, sort_keys=True)


def cmd_import(name, prop, wt):
    d = os.path.join(SEEDED, name)
    os.makedirs(d, exist_ok=True)
    for f in ("patch.diff", "demo.rs", "notes.md"):
        shutil.copy(os.path.join(wt, "OUT", f), os.path.join(d, f))
    if os.path.exists(os.path.join(wt, "OUT", "demo_cargo.diff")):
        shutil.copy(os.path.join(wt, "OUT", "demo_cargo.diff"), os.path.join(d, "demo_cargo.diff"))
    rc, out = sh("git status --porcelain --untracked-files=all", cwd=wt)
    demo = [l[3:] for l in out.splitlines() if l.startswith("??") and "/tests/" in l and l.endswith(".rs")]
    m = {"name": name, "property": prop, "demo_path": demo[0] if demo else None, "source": "independent sub-agent given only the property text and a scratch worktree",
         "needs": "", "verified": None, "runs": {}}
    if os.path.exists(meta_path(name)):
        old = load(name)
        old.update({k: v for k, v in m.items() if k in ("demo_path",) and v})
        m = old
    save(name, m)
    print("imported", name, "demo at", m["demo_path"])


def cmd_import2(name, prop, outdir):
    """import from a directory holding patch.diff, demo.rs, notes.md, demo_path.txt"""
    d = os.path.join(SEEDED, name)
    os.makedirs(d, exist_ok=True)
    for f in ("patch.diff", "demo.rs", "notes.md"):
        shutil.copy(os.path.join(outdir, f), os.path.join(d, f))
    for f in ("demo_cargo.diff",):
        if os.path.exists(os.path.join(outdir, f)):
            shutil.copy(os.path.join(outdir, f), os.path.join(d, f))
    demo = open(os.path.join(outdir, "demo_path.txt")).read().strip().split()[0]
    if demo.startswith("/"):
        demo = demo.split("/", 4)[-1] if demo.startswith("/tmp/") else demo
    m = {"name": name, "property": prop, "demo_path": demo, "source": "independent sub-agent given only the property text (and a one-line description of an earlier change to avoid) and a scratch worktree",
         "needs": "", "verified": None, "runs": {}}
    save(name, m)
    print("imported", name, "demo at", demo)


def cmd_verify(name):
    m = load(name)
    wt = "/tmp/seedverify_" + name
    sh("git -C /repo worktree remove --force %s; rm -rf %s" % (wt, wt))
    rc, out = sh("git -C /repo worktree add -q %s HEAD && cp /repo/Cargo.lock %s/" % (wt, wt))
    assert rc == 0, out
    res = {}
    try:
        d = os.path.join(SEEDED, name)
        env_t = "CARGO_TARGET_DIR=/tmp/seedverify_target"
        rc, out = sh("git apply %s/patch.diff" % d, cwd=wt)
        res["patch_applies"] = rc == 0
        if rc != 0:
            res["error"] = out[-500:]
            return res
        rc, out = sh("%s cargo test --workspace --offline 2>&1" % env_t, cwd=wt)
        res["suite_passes_with_patch"] = rc == 0 and out.count("test result: ok") >= 3 and "FAILED" not in out
        res["suite_tests_passed"] = sum(int(l.split("ok. ")[1].split(" passed")[0]) for l in out.splitlines() if l.startswith("test result: ok."))
        rc, out = sh("%s cargo build --offline -p h263-rs --features verif 2>&1" % env_t, cwd=wt)
        res["verif_feature_builds"] = rc == 0
        demo = m["demo_path"]
        crate_dir = demo.split("/tests/")[0]
        test_name = os.path.basename(demo)[:-3]
        os.makedirs(os.path.join(wt, os.path.dirname(demo)), exist_ok=True)
        shutil.copy(os.path.join(d, "demo.rs"), os.path.join(wt, demo))
        if os.path.exists(os.path.join(d, "demo_cargo.diff")):
            rcd, outd = sh("git apply %s/demo_cargo.diff" % d, cwd=wt)
            res["demo_cargo_diff_applies"] = rcd == 0
        pkg = {"h263": "h263-rs", "yuv": "h263-rs-yuv", "deblock": "h263-rs-deblock"}[crate_dir]
        if 'feature = "verif"' in open(os.path.join(d, "demo.rs")).read() or "h263_rs::verif" in open(os.path.join(d, "demo.rs")).read():
            pkg += " --features verif"
        rc1, out1 = sh("%s cargo test --offline -p %s --test %s 2>&1" % (env_t, pkg, test_name), cwd=wt)
        res["demo_fails_with_patch"] = rc1 != 0 and ("FAILED" in out1 or "panicked" in out1 or "abort" in out1.lower() or "signal" in out1.lower())
        res["demo_with_patch_tail"] = out1[-400:]
        sh("git apply -R %s/patch.diff" % d, cwd=wt)
        rc2, out2 = sh("%s cargo test --offline -p %s --test %s 2>&1" % (env_t, pkg, test_name), cwd=wt)
        res["demo_passes_without_patch"] = rc2 == 0
        if rc2 != 0:
            res["demo_without_patch_tail"] = out2[-400:]
    finally:
        sh("git -C /repo worktree remove --force %s; rm -rf %s /tmp/seedverify_target; git -C /repo worktree prune" % (wt, wt))
    res["ok"] = all(res.get(k) for k in ("patch_applies", "suite_passes_with_patch", "verif_feature_builds", "demo_fails_with_patch", "demo_passes_without_patch"))
    res["commands"] = ["git apply patch.diff", "cargo test --workspace --offline", "cargo build --offline -p h263-rs --features verif", "cargo test --offline -p <crate> --test <demo> (with and without the patch)"]
    m["verified"] = res
    save(name, m)
    print(json.dumps({k: v for k, v in res.items() if not k.endswith("_tail")}, indent=1))
    return res


def cmd_run(name, props):
    m = load(name)
    props = props or [m["property"]]
    d = os.path.join(SEEDED, name)
    rc, out = sh("git -C %s status --porcelain --untracked-files=no" % REPO)
    if out.strip():
        print("refusing: /repo has uncommitted changes:\n" + out)
        return 2
    rc, out = sh("git -C %s apply %s/patch.diff" % (REPO, d))
    if rc != 0:
        print("patch does not apply:", out)
        return 2
    try:
        for p in props:
            t0 = time.time()
            rc, out = sh("./check %s quick" % p, cwd=ROOT, timeout=7200)
            sigs = [l.strip().split("signature: ")[1] for l in out.splitlines() if "signature: " in l]
            m["runs"][p] = {"exit": rc, "verdict": {0: "MISSED", 1: "CAUGHT", 3: "inconclusive"}.get(rc, "rc%d" % rc), "signatures": sigs[:6], "seconds": round(time.time() - t0, 1),
                            "first_detail": next((l.strip()[:400] for l in out.splitlines() if l.startswith("  ") and "signature" not in l), "")}
            print(name, p, m["runs"][p]["verdict"], sigs[:3])
    finally:
        sh("git -C %s checkout -- ." % REPO)
        # evidence/replays written while /repo was modified do not describe the unchanged tree
        sh("git checkout -- evidence 2>/dev/null; rm -f replays/*.json", cwd=ROOT)
    save(name, m)
    return 0


def cmd_matrix(outfile, stages="chk"):
    """every seeded change x every property's quick check (chk stage only): which checks catch which changes"""
    props = ["C%02d" % i for i in range(1, 18)]
    res = {}
    if os.path.exists(outfile):
        res = json.load(open(outfile))
    env = dict(ENV, VERIF_STAGES=stages)
    for name in sorted(os.listdir(SEEDED)):
        if not os.path.exists(meta_path(name)) or name in res:
            continue
        d = os.path.join(SEEDED, name)
        rc, out = sh("git -C %s apply %s/patch.diff" % (REPO, d))
        if rc != 0:
            res[name] = {"error": "patch does not apply"}
            continue
        row = {}
        try:
            for p in props:
                pr = subprocess.run(["./check", p, "quick"], cwd=ROOT, env=env, stdout=subprocess.PIPE, stderr=subprocess.STDOUT, text=True)
                sigs = [l.strip().split("signature: ")[1].split(" (x")[0] for l in pr.stdout.splitlines() if "signature: " in l]
                row[p] = {"verdict": {0: "-", 1: "CAUGHT", 3: "inconclusive"}.get(pr.returncode, "rc%d" % pr.returncode), "signatures": sigs[:3]}
        finally:
            sh("git -C %s checkout -- ." % REPO)
        res[name] = row
        json.dump(res, open(outfile, "w"), indent=1, sort_keys=True)
        print(name, " ".join("%s:%s" % (p, row[p]["verdict"][0]) for p in props), flush=True)
    return 0


def cmd_matrix_md(infile):
    res = json.load(open(infile))
    props = ["C%02d" % i for i in range(1, 18)]
    print("Which quick checks (overflow-checked stage only) catch which seeded change. `C` = caught (exit 1), `i` = inconclusive (exit 3), `-` = silent.")
    print("Produced by `./seeded.py matrix` at the commit noted in DESIGN.md section 5; checks added later are stronger than what this table shows.\n")
    print("| change | " + " | ".join(p[1:] for p in props) + " |")
    print("|---|" + "---|" * len(props))
    for name in sorted(res):
        row = res[name]
        if "error" in row:
            continue
        print("| %s | " % name + " | ".join({"CAUGHT": "C", "-": "-", "inconclusive": "i"}.get(row[p]["verdict"], "?") for p in props) + " |")


def cmd_table():
    rows = []
    for name in sorted(os.listdir(SEEDED)):
        if not os.path.exists(meta_path(name)):
            continue
        m = load(name)
        v = m.get("verified") or {}
        runs = m.get("runs", {})
        rows.append("| %s | %s | %s | %s | %s |" % (name, m["property"], "yes" if v.get("ok") else "NO", ", ".join("%s:%s" % (p, r["verdict"]) for p, r in sorted(runs.items())),
                                               "; ".join(s for r in runs.values() for s in r["signatures"][:2])[:160]))
    print("| change | property | confirmed (suite passes, demo fails/passes) | quick checks | signatures |\n|---|---|---|---|---|")
    print("\n".join(rows))


if __name__ == "__main__":
    a = sys.argv
    if len(a) >= 5 and a[1] == "import":
        cmd_import(a[2], a[3], a[4])
    elif len(a) >= 5 and a[1] == "import2":
        cmd_import2(a[2], a[3], a[4])
    elif len(a) >= 3 and a[1] == "verify":
        r = cmd_verify(a[2])
        sys.exit(0 if r.get("ok") else 1)
    elif len(a) >= 3 and a[1] == "run":
        sys.exit(cmd_run(a[2], a[3:]))
    elif len(a) >= 3 and a[1] == "matrix-md":
        cmd_matrix_md(a[2])
    elif len(a) >= 3 and a[1] == "matrix":
        sys.exit(cmd_matrix(a[2]))
    elif len(a) >= 2 and a[1] == "table":
        cmd_table()
    else:
        print(__doc__)
