#!/bin/sh
# dev helper: run every check of a tier and summarise (not part of the manifest)
cd "$(dirname "$0")"
TIER=${1:-quick}
mkdir -p out
for i in 01 02 03 04 05 06 07 08 09 10 11 12 13 14 15 16 17; do
  s=$(date +%s)
  ./check C$i $TIER > out/run_C$i.log 2>&1; rc=$?
  e=$(date +%s)
  echo "C$i rc=$rc $((e-s))s $(grep -E '^(OK|VIOLATION|INCONCLUSIVE|KNOWN)' out/run_C$i.log | head -3 | tr '\n' ' ' | cut -c1-260)"
done
