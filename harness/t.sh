#!/bin/sh
# dev helper: build chk and run one property's monitor, print a summary
cd /verif/harness || exit 1
cargo build --profile ${PROFILE:-chk} 2>&1 | grep -E "^error|-->" -A 8 | head -60 | sed "s/^/BUILD: /"
BIN=target/${PROFILE:-chk}/hv; [ "${PROFILE:-chk}" = release ] && BIN=target/release/hv
for p in "$@"; do
  $BIN run $p --tier ${TIER:-quick} --seed ${SEED:-1} --stage ${STAGE:-chk} --scale ${SCALE:-100} --out /tmp/$p.json || continue
  python3 - $p <<'PY'
import json,sys
j=json.load(open('/tmp/%s.json'%sys.argv[1]))
print('inconclusive:', j['inconclusive'][:6], 'exhaustive:', j.get('exhaustive'), 'max:', j['max'])
c=j['counters']
skip=('trigram','bigram','geom:','cfg:','mb:','quant=','pquant=','wmod','hmod','startcode:','class:')
print({k:c[k] for k in sorted(c) if not k.startswith(skip)})
for v in j['violations'][:12]: print('V', v['sig'], v['count'], v['detail'][:500])
PY
done
