//! Coverage-guided target for C01 (thorough tier): byte 0 selects the decoder options, the
//! rest is one input that is decoded twice on the same decoder (the second call sees the
//! state left by the first). Panics abort the process (libFuzzer artifact); every artifact is
//! re-run through the C01 classifier by ./check before it counts as a violation.
#![no_main]
use h263_rs::parser::H263Reader;
use h263_rs::{DecoderOption, H263State};
use libfuzzer_sys::fuzz_target;

fn bits_at(data: &[u8], pos: usize, n: u32) -> Option<u64> {
    if pos + n as usize > data.len() * 8 {
        return None;
    }
    let mut v = 0u64;
    for i in 0..n as usize {
        v = (v << 1) | ((data[(pos + i) / 8] >> (7 - (pos + i) % 8)) & 1) as u64;
    }
    Some(v)
}

/// Independent probe of the declared picture size (the property excludes sizes that do not fit in memory).
fn too_big(data: &[u8], sorenson: bool) -> bool {
    if !sorenson {
        return false; // standard formats are at most 2048 x 1152
    }
    for off in 0..=8usize {
        if bits_at(data, off, 17) == Some(1) {
            let p = off + 17 + 5 + 8;
            return match bits_at(data, p, 3) {
                Some(1) => match (bits_at(data, p + 3, 16), bits_at(data, p + 19, 16)) {
                    (Some(w), Some(h)) => w * h > (1 << 22),
                    _ => false,
                },
                _ => false,
            };
        }
    }
    false
}

fuzz_target!(|data: &[u8]| {
    if data.is_empty() {
        return;
    }
    let mut opts = DecoderOption::empty();
    let sorenson = data[0] & 1 != 0;
    if sorenson {
        opts |= DecoderOption::SORENSON_SPARK_BITSTREAM;
    }
    if data[0] & 2 != 0 {
        opts |= DecoderOption::USE_SCALABILITY_MODE;
    }
    let body = &data[1..];
    if too_big(body, sorenson) {
        return;
    }
    let mut st = H263State::new(opts);
    for _ in 0..2 {
        let mut rd = H263Reader::from_source(body);
        let _ = st.decode_next_picture(&mut rd);
        let _ = h263_rs::verif::take_mb_log();
    }
});
