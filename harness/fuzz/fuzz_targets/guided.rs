//! Coverage-guided, structure-aware target (thorough tier of C02, C03, C04, C05, C15): the
//! fuzzer's bytes are the *decision tape* of the monitor's generator (two bytes per draw), so
//! every input is a valid-by-construction case of that monitor - pictures, histories, faults -
//! and libFuzzer's coverage feedback from the decoder steers which cases get explored. The
//! monitor's own oracle (model comparison, twin runs, position hook) judges each case; a
//! violation aborts the process, and ./check re-runs the artifact through `hv tape` in the
//! overflow-checked build before it counts. The property is chosen with HV_PROP.
#![no_main]
use libfuzzer_sys::fuzz_target;
use std::sync::OnceLock;

static PROP: OnceLock<String> = OnceLock::new();

fuzz_target!(|data: &[u8]| {
    let prop = PROP.get_or_init(|| std::env::var("HV_PROP").unwrap_or_else(|_| "C02".into()));
    if data.len() < 8 {
        return;
    }
    let rep = hv::guided_case(prop, data);
    if let Some((v, _)) = rep.violations.values().next() {
        eprintln!("GUIDED-VIOLATION property={} sig={} :: {}", prop, v.sig, v.detail);
        std::process::abort();
    }
});
