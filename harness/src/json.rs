//! Minimal JSON value, writer and parser (no external crates are available).

use std::collections::BTreeMap;

#[derive(Clone, Debug, PartialEq)]
pub enum J {
    Null,
    Bool(bool),
    Int(i64),
    Num(f64),
    Str(String),
    Arr(Vec<J>),
    Obj(BTreeMap<String, J>),
}

impl J {
    pub fn obj() -> J {
        J::Obj(BTreeMap::new())
    }
    pub fn set(mut self, k: &str, v: impl Into<J>) -> J {
        if let J::Obj(m) = &mut self {
            m.insert(k.to_string(), v.into());
        }
        self
    }
    pub fn put(&mut self, k: &str, v: impl Into<J>) {
        if let J::Obj(m) = self {
            m.insert(k.to_string(), v.into());
        }
    }
    pub fn get(&self, k: &str) -> Option<&J> {
        if let J::Obj(m) = self {
            m.get(k)
        } else {
            None
        }
    }
    pub fn as_str(&self) -> Option<&str> {
        if let J::Str(s) = self {
            Some(s)
        } else {
            None
        }
    }
    pub fn as_i64(&self) -> Option<i64> {
        match self {
            J::Int(i) => Some(*i),
            J::Num(f) => Some(*f as i64),
            _ => None,
        }
    }
    pub fn as_arr(&self) -> Option<&Vec<J>> {
        if let J::Arr(a) = self {
            Some(a)
        } else {
            None
        }
    }
    pub fn write(&self, out: &mut String) {
        match self {
            J::Null => out.push_str("null"),
            J::Bool(b) => out.push_str(if *b { "true" } else { "false" }),
            J::Int(i) => out.push_str(&i.to_string()),
            J::Num(f) => {
                if f.is_finite() {
                    let s = format!("{}", f);
                    out.push_str(&s);
                    if !s.contains('.') && !s.contains('e') && !s.contains('E') {
                        out.push_str(".0");
                    }
                } else {
                    out.push_str("null")
                }
            }
            J::Str(s) => {
                out.push('"');
                for c in s.chars() {
                    match c {
                        '"' => out.push_str("\\\""),
                        '\\' => out.push_str("\\\\"),
                        '\n' => out.push_str("\\n"),
                        '\r' => out.push_str("\\r"),
                        '\t' => out.push_str("\\t"),
                        c if (c as u32) < 0x20 => out.push_str(&format!("\\u{:04x}", c as u32)),
                        c => out.push(c),
                    }
                }
                out.push('"');
            }
            J::Arr(a) => {
                out.push('[');
                for (i, v) in a.iter().enumerate() {
                    if i > 0 {
                        out.push(',');
                    }
                    v.write(out);
                }
                out.push(']');
            }
            J::Obj(m) => {
                out.push('{');
                for (i, (k, v)) in m.iter().enumerate() {
                    if i > 0 {
                        out.push(',');
                    }
                    J::Str(k.clone()).write(out);
                    out.push(':');
                    v.write(out);
                }
                out.push('}');
            }
        }
    }
    pub fn to_string(&self) -> String {
        let mut s = String::new();
        self.write(&mut s);
        s
    }
    pub fn parse(s: &str) -> Result<J, String> {
        let b = s.as_bytes();
        let mut p = 0;
        let v = parse_val(b, &mut p)?;
        skip_ws(b, &mut p);
        if p != b.len() {
            return Err(format!("trailing data at {}", p));
        }
        Ok(v)
    }
}

fn skip_ws(b: &[u8], p: &mut usize) {
    while *p < b.len() && (b[*p] == b' ' || b[*p] == b'\n' || b[*p] == b'\r' || b[*p] == b'\t') {
        *p += 1;
    }
}

fn parse_val(b: &[u8], p: &mut usize) -> Result<J, String> {
    skip_ws(b, p);
    if *p >= b.len() {
        return Err("eof".into());
    }
    match b[*p] {
        b'{' => {
            *p += 1;
            let mut m = BTreeMap::new();
            skip_ws(b, p);
            if *p < b.len() && b[*p] == b'}' {
                *p += 1;
                return Ok(J::Obj(m));
            }
            loop {
                skip_ws(b, p);
                let k = match parse_val(b, p)? {
                    J::Str(s) => s,
                    _ => return Err("key".into()),
                };
                skip_ws(b, p);
                if *p >= b.len() || b[*p] != b':' {
                    return Err("colon".into());
                }
                *p += 1;
                let v = parse_val(b, p)?;
                m.insert(k, v);
                skip_ws(b, p);
                if *p < b.len() && b[*p] == b',' {
                    *p += 1;
                    continue;
                }
                if *p < b.len() && b[*p] == b'}' {
                    *p += 1;
                    return Ok(J::Obj(m));
                }
                return Err(format!("obj at {}", p));
            }
        }
        b'[' => {
            *p += 1;
            let mut a = vec![];
            skip_ws(b, p);
            if *p < b.len() && b[*p] == b']' {
                *p += 1;
                return Ok(J::Arr(a));
            }
            loop {
                a.push(parse_val(b, p)?);
                skip_ws(b, p);
                if *p < b.len() && b[*p] == b',' {
                    *p += 1;
                    continue;
                }
                if *p < b.len() && b[*p] == b']' {
                    *p += 1;
                    return Ok(J::Arr(a));
                }
                return Err(format!("arr at {}", p));
            }
        }
        b'"' => {
            *p += 1;
            let mut s = String::new();
            let mut bytes: Vec<u8> = vec![];
            while *p < b.len() && b[*p] != b'"' {
                if b[*p] == b'\\' {
                    *p += 1;
                    match b[*p] {
                        b'n' => bytes.push(b'\n'),
                        b't' => bytes.push(b'\t'),
                        b'r' => bytes.push(b'\r'),
                        b'u' => {
                            let h = std::str::from_utf8(&b[*p + 1..*p + 5]).map_err(|e| e.to_string())?;
                            let c = u32::from_str_radix(h, 16).map_err(|e| e.to_string())?;
                            let ch = char::from_u32(c).unwrap_or('?');
                            let mut buf = [0u8; 4];
                            bytes.extend_from_slice(ch.encode_utf8(&mut buf).as_bytes());
                            *p += 4;
                        }
                        c => bytes.push(c),
                    }
                    *p += 1;
                } else {
                    bytes.push(b[*p]);
                    *p += 1;
                }
            }
            *p += 1;
            s.push_str(&String::from_utf8_lossy(&bytes));
            Ok(J::Str(s))
        }
        b't' => {
            *p += 4;
            Ok(J::Bool(true))
        }
        b'f' => {
            *p += 5;
            Ok(J::Bool(false))
        }
        b'n' => {
            *p += 4;
            Ok(J::Null)
        }
        _ => {
            let st = *p;
            while *p < b.len() && (b[*p] == b'-' || b[*p] == b'+' || b[*p] == b'.' || b[*p] == b'e' || b[*p] == b'E' || b[*p].is_ascii_digit()) {
                *p += 1;
            }
            let t = std::str::from_utf8(&b[st..*p]).unwrap();
            if let Ok(i) = t.parse::<i64>() {
                Ok(J::Int(i))
            } else {
                t.parse::<f64>().map(J::Num).map_err(|e| format!("num {:?}: {}", t, e))
            }
        }
    }
}

impl From<bool> for J {
    fn from(v: bool) -> J {
        J::Bool(v)
    }
}
impl From<i64> for J {
    fn from(v: i64) -> J {
        J::Int(v)
    }
}
impl From<u64> for J {
    fn from(v: u64) -> J {
        J::Int(v as i64)
    }
}
impl From<usize> for J {
    fn from(v: usize) -> J {
        J::Int(v as i64)
    }
}
impl From<i32> for J {
    fn from(v: i32) -> J {
        J::Int(v as i64)
    }
}
impl From<u32> for J {
    fn from(v: u32) -> J {
        J::Int(v as i64)
    }
}
impl From<f64> for J {
    fn from(v: f64) -> J {
        J::Num(v)
    }
}
impl From<&str> for J {
    fn from(v: &str) -> J {
        J::Str(v.to_string())
    }
}
impl From<String> for J {
    fn from(v: String) -> J {
        J::Str(v)
    }
}
impl From<Vec<J>> for J {
    fn from(v: Vec<J>) -> J {
        J::Arr(v)
    }
}
