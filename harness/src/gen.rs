//! Workload generators: valid symbolic pictures with coverage-directed knobs.

use crate::model::header::*;
use crate::model::recon::zigzag;
use crate::model::syntax::*;
use crate::model::tables::*;
use crate::util::Rng;

#[derive(Clone, Copy, Debug, PartialEq, Eq)]
pub enum Flavour {
    /// Sorenson Spark, version 0 (8-bit escapes) or 1 (7/11-bit escapes)
    Sor(u8),
    /// Standard H.263 baseline PTYPE header with one of the five fixed formats
    StdFixed,
    /// Standard H.263 with PLUSPTYPE + CPFMT custom size (multiples of 4)
    StdPlus,
}

impl Flavour {
    pub fn sorenson(self) -> bool {
        matches!(self, Flavour::Sor(_))
    }
    pub fn name(self) -> &'static str {
        match self {
            Flavour::Sor(0) => "sorenson-v0",
            Flavour::Sor(_) => "sorenson-v1",
            Flavour::StdFixed => "std-ptype",
            Flavour::StdPlus => "std-plusptype",
        }
    }
}

#[derive(Clone, Copy, Debug, PartialEq, Eq)]
pub enum Shape {
    Empty,
    DcOnly,
    FirstRow,
    FirstCol,
    Sparse,
    Dense,
    Last63,
}

pub const SHAPES: [Shape; 7] = [Shape::Empty, Shape::DcOnly, Shape::FirstRow, Shape::FirstCol, Shape::Sparse, Shape::Dense, Shape::Last63];

impl Shape {
    pub fn name(self) -> &'static str {
        match self {
            Shape::Empty => "empty",
            Shape::DcOnly => "dc-only",
            Shape::FirstRow => "first-row",
            Shape::FirstCol => "first-col",
            Shape::Sparse => "sparse",
            Shape::Dense => "dense",
            Shape::Last63 => "last63",
        }
    }
}

/// Level magnitude policy.
#[derive(Clone, Copy, Debug)]
pub struct LevelCfg {
    /// Sorenson version 1 escapes (7/11 bit) instead of 8 bit
    pub v1: bool,
    /// allow the full magnitude range of the escape form (else keep |L| small)
    pub wide: bool,
}

fn pick_level(rng: &mut Rng, cfg: LevelCfg) -> (i32, Option<Esc>) {
    // returns (level, forced escape form or None = encoder's choice)
    let sign = if rng.chance(1, 2) { 1 } else { -1 };
    let r = rng.below(100);
    let (mag, forced) = if !cfg.wide || r < 60 {
        (1 + rng.below(12) as i32, None)
    } else if cfg.v1 {
        if r < 80 {
            (1 + rng.below(63) as i32, Some(Esc::Esc7))
        } else {
            (1 + rng.below(1023) as i32, Some(Esc::Esc11))
        }
    } else {
        (1 + rng.below(127) as i32, Some(Esc::Esc8))
    };
    (sign * mag, forced)
}

/// Turn sorted scan positions into (run, level) events.
pub fn events_at(rng: &mut Rng, positions: &[usize], first_index: usize, cfg: LevelCfg, short_bias: u64) -> Vec<Ev> {
    let mut evs = vec![];
    let mut idx = first_index;
    let n = positions.len();
    for (k, &p) in positions.iter().enumerate() {
        debug_assert!(p >= idx && p <= 63);
        let run = (p - idx) as u8;
        let (level, forced) = pick_level(rng, cfg);
        let last = k + 1 == n;
        let in_table = tcoef_short(last, run, level.unsigned_abs()).is_some();
        let esc = match forced {
            Some(e) => {
                if in_table && rng.below(100) < short_bias {
                    Esc::Short
                } else {
                    e
                }
            }
            None => {
                if in_table && rng.below(100) < short_bias {
                    Esc::Short
                } else if cfg.v1 {
                    if level.abs() <= 63 && rng.chance(2, 3) {
                        Esc::Esc7
                    } else {
                        Esc::Esc11
                    }
                } else {
                    Esc::Esc8
                }
            }
        };
        evs.push(Ev { run, level, esc });
        idx = p + 1;
    }
    evs
}

fn scan_positions_where(pred: impl Fn(usize, usize) -> bool) -> Vec<usize> {
    let zz = zigzag();
    (0..64).filter(|&i| pred(zz[i].0, zz[i].1)).collect()
}

pub fn gen_block(rng: &mut Rng, intra: bool, shape: Shape, cfg: LevelCfg) -> SymBlock {
    let intradc = if intra {
        Some(loop {
            let c = 1 + rng.below(255) as u8;
            if c != 128 {
                break c;
            }
        })
    } else {
        None
    };
    let first = if intra { 1 } else { 0 };
    let choose = |cands: Vec<usize>, n: usize, rng: &mut Rng| -> Vec<usize> {
        let mut c: Vec<usize> = cands.into_iter().filter(|&p| p >= first).collect();
        let mut out = vec![];
        for _ in 0..n.min(c.len()) {
            let i = rng.below(c.len() as u64) as usize;
            out.push(c.swap_remove(i));
        }
        out.sort();
        out
    };
    let positions: Vec<usize> = match shape {
        Shape::Empty => vec![],
        Shape::DcOnly => {
            if intra {
                vec![]
            } else {
                vec![0]
            }
        }
        Shape::FirstRow => {
            let n = 1 + rng.below(7) as usize;
            let mut p = choose(scan_positions_where(|u, v| v == 0 && u > 0), n, rng);
            if !intra && rng.chance(1, 2) {
                p.insert(0, 0);
            }
            p
        }
        Shape::FirstCol => {
            let n = 1 + rng.below(7) as usize;
            let mut p = choose(scan_positions_where(|u, v| u == 0 && v > 0), n, rng);
            if !intra && rng.chance(1, 2) {
                p.insert(0, 0);
            }
            p
        }
        Shape::Sparse => {
            let n = 1 + rng.below(5) as usize;
            choose((0..64).collect(), n, rng)
        }
        Shape::Dense => {
            // now and then every scan position is coded (63 events in an intra block, 64 in an inter block)
            let n = if rng.chance(1, 8) { 64 } else { 12 + rng.below(52) as usize };
            choose((0..64).collect(), n, rng)
        }
        Shape::Last63 => {
            let n = rng.below(4) as usize;
            let mut p = choose((0..63).collect(), n, rng);
            p.push(63);
            p
        }
    };
    let short_bias = *rng.pick(&[0u64, 50, 90, 100]);
    let events = events_at(rng, &positions, first, cfg, short_bias);
    SymBlock { intradc, events }
}

/// Classify a generated block by what it actually contains (for coverage counters).
pub fn block_shape_observed(b: &SymBlock) -> &'static str {
    let zz = zigzag();
    let mut idx = if b.intradc.is_some() { 1 } else { 0 };
    let (mut row0, mut col0, mut n) = (true, true, 0);
    let mut has63 = false;
    for ev in &b.events {
        idx += ev.run as usize;
        if idx > 63 {
            break;
        }
        let (u, v) = zz[idx];
        if v > 0 {
            row0 = false;
        }
        if u > 0 {
            col0 = false;
        }
        if idx == 63 {
            has63 = true;
        }
        n += 1;
        idx += 1;
    }
    if n == 0 {
        if b.intradc.is_some() {
            "dc-only"
        } else {
            "empty"
        }
    } else if has63 {
        "last63"
    } else if row0 && col0 {
        "dc-only"
    } else if row0 {
        "first-row"
    } else if col0 {
        "first-col"
    } else if n >= 12 {
        "dense"
    } else {
        "sparse"
    }
}

#[derive(Clone, Debug)]
pub struct PicCfg {
    pub flavour: Flavour,
    pub w: usize,
    pub h: usize,
    pub quant: u8,
    pub tr: u8,
    pub wide_levels: bool,
    /// probability (percent) that a macroblock is preceded by stuffing
    pub stuffing_pct: u64,
    pub pei: usize,
    pub deblock_flag: bool,
    pub prefer_fixed_size_code: bool,
    pub force16: bool,
}

pub const STD_FIXED: [(u8, usize, usize); 5] = [(1, 128, 96), (2, 176, 144), (3, 352, 288), (4, 704, 576), (5, 1408, 1152)];

pub fn make_header(cfg: &PicCfg, ptype: u8, rng: &mut Rng) -> Hdr {
    let pei: Vec<u8> = (0..cfg.pei).map(|_| rng.byte()).collect();
    match cfg.flavour {
        Flavour::Sor(v) => {
            let size = if cfg.force16 { SorSize::Custom16(cfg.w as u16, cfg.h as u16) } else { SorSize::for_dims(cfg.w as u16, cfg.h as u16, cfg.prefer_fixed_size_code) };
            Hdr::Sor(SorHeader { version: v, tr: cfg.tr, size, ptype, deblock: cfg.deblock_flag, quant: cfg.quant, pei })
        }
        Flavour::StdFixed => {
            let fmt = STD_FIXED.iter().find(|f| f.1 == cfg.w && f.2 == cfg.h).expect("fixed format size").0;
            let mut h = StdHeader::baseline(cfg.tr, fmt, ptype != 0, cfg.quant);
            h.pei = pei;
            // continuous-presence multipoint: a sub-bitstream number that may change from picture to picture
            h.cpm = if rng.chance(1, 4) { Some(rng.below(4) as u8) } else { None };
            Hdr::Std(h)
        }
        Flavour::StdPlus => {
            assert!(cfg.w % 4 == 0 && cfg.h % 4 == 0 && cfg.w >= 4 && cfg.h >= 4);
            let mut h = StdHeader::baseline(cfg.tr, 7, ptype != 0, cfg.quant);
            h.pei = pei;
            h.cpm = if rng.chance(1, 4) { Some(rng.below(4) as u8) } else { None };
            h.plus = Some(PlusHeader {
                ufep: 1,
                src_fmt: 6,
                custom_pcf: false,
                umv: false,
                sac: false,
                ap: false,
                aic: false,
                df: false,
                ss: false,
                rps: false,
                isd: false,
                aiv: false,
                mq: false,
                ptype: if ptype == 0 { 0 } else { 1 },
                rpr: false,
                rru: false,
                // the rounding-type bit of predicted pictures is parsed; the property's interpolation rule does not depend on it
                rtype: ptype != 0 && rng.chance(1, 3),
                // the extended form (1111) is followed by two more bytes after the height
                par: *rng.pick(&[1u8, 2, 3, 4, 5, 15]),
                pwi: (cfg.w / 4 - 1) as u16,
                phi: (cfg.h / 4) as u16,
                epar: (1 + cfg.tr % 255, 1 + cfg.quant),
                cpcfc: 0,
                etr: 0,
                uui_unlimited: false,
                sss: 0,
                elnum: 0,
                rlnum: 0,
                rpsmf: 4,
                trp: None,
            });
            Hdr::Std(h)
        }
    }
}

/// Make a standard-mode PLUSPTYPE picture header not restate its source format (UFEP = 000): the
/// format of the previous picture stays in force. Only for predicted pictures whose OPPTYPE modes
/// are all off (nothing else is inherited then). Returns whether the header was changed.
pub fn drop_format(pic: &mut SymPicture) -> bool {
    if let Hdr::Std(h) = &mut pic.hdr {
        if let Some(p) = h.plus.as_mut() {
            if p.ptype != 0 && p.ufep == 1 && !(p.custom_pcf || p.umv || p.sac || p.ap || p.aic || p.df || p.ss || p.rps || p.isd || p.aiv || p.mq) {
                p.ufep = 0;
                return true;
            }
        }
    }
    false
}

fn gen_dquant(rng: &mut Rng, bias: i8) -> i8 {
    // bias != 0 drives the quantiser towards a clamp
    if bias > 0 && rng.chance(3, 4) {
        *rng.pick(&[1i8, 2])
    } else if bias < 0 && rng.chance(3, 4) {
        *rng.pick(&[-1i8, -2])
    } else {
        *rng.pick(&[-2i8, -1, 1, 2])
    }
}

fn stuffing_vec(rng: &mut Rng, n: usize, pct: u64) -> Vec<u8> {
    (0..n).map(|_| if pct > 0 && rng.below(100) < pct { 1 + rng.below(2) as u8 } else { 0 }).collect()
}

/// Give the macroblock sequence a regular structure now and then: exact repetition with a short,
/// odd period (2, 3, 5 or 7 macroblocks - not the picture's row length), or a palindrome.
fn structure(rng: &mut Rng, mbs: &mut [SymMb]) {
    let n = mbs.len();
    if n < 4 || !rng.chance(1, 8) {
        return;
    }
    if rng.chance(1, 4) {
        for i in 0..n / 2 {
            mbs[n - 1 - i] = mbs[i].clone();
        }
    } else {
        let p = *rng.pick(&[2usize, 3, 5, 7]);
        if p < n {
            for i in p..n {
                mbs[i] = mbs[i % p].clone();
            }
        }
    }
}

/// A valid intra picture.
pub fn gen_intra(rng: &mut Rng, cfg: &PicCfg) -> SymPicture {
    let hdr = make_header(cfg, 0, rng);
    let (mbw, mbh) = ((cfg.w + 15) / 16, (cfg.h + 15) / 16);
    let lc = LevelCfg { v1: cfg.flavour == Flavour::Sor(1), wide: cfg.wide_levels };
    let bias = *rng.pick(&[0i8, 0, 1, -1]);
    let q_pct = *rng.pick(&[0u64, 20, 60]);
    // per-picture shape palette so that some pictures are all-of-one-shape
    let palette: Vec<Shape> = if rng.chance(1, 4) { vec![*rng.pick(&SHAPES)] } else { SHAPES.to_vec() };
    let mut mbs = Vec::with_capacity(mbw * mbh);
    // one picture in six is built from a small pool of distinct blocks, so identical blocks recur
    // (next to each other and interleaved with different ones)
    let pool: Vec<SymBlock> = if rng.chance(1, 6) {
        (0..2 + rng.below(4))
            .map(|_| {
                let shape = *rng.pick(&palette);
                gen_block(rng, true, shape, lc)
            })
            .collect()
    } else {
        vec![]
    };
    for _ in 0..mbw * mbh {
        let kind = if rng.below(100) < q_pct { MbKind::IntraQ } else { MbKind::Intra };
        let blocks: [SymBlock; 6] = std::array::from_fn(|_| {
            if !pool.is_empty() {
                return rng.pick(&pool).clone();
            }
            let shape = *rng.pick(&palette);
            gen_block(rng, true, shape, lc)
        });
        mbs.push(SymMb::Coded { kind, dquant: gen_dquant(rng, bias), mvd: [[0; 2]; 4], blocks });
    }
    structure(rng, &mut mbs);
    let stuffing = stuffing_vec(rng, mbs.len(), cfg.stuffing_pct);
    SymPicture { hdr, w: cfg.w, h: cfg.h, mbs, stuffing }
}

/// A high-entropy intra picture used as a reference: random INTRADC and dense
/// medium-amplitude coefficients so that neighbouring displacements differ.
pub fn gen_reference(rng: &mut Rng, cfg: &PicCfg) -> SymPicture {
    let hdr = make_header(cfg, 0, rng);
    let (mbw, mbh) = ((cfg.w + 15) / 16, (cfg.h + 15) / 16);
    let lc = LevelCfg { v1: cfg.flavour == Flavour::Sor(1), wide: false };
    let mut mbs = Vec::with_capacity(mbw * mbh);
    for _ in 0..mbw * mbh {
        let blocks: [SymBlock; 6] = std::array::from_fn(|_| {
            let dc = 40 + rng.below(170) as u8;
            let dc = if dc == 128 { 129 } else { dc };
            let n = 3 + rng.below(6) as usize;
            let mut pos: Vec<usize> = vec![];
            while pos.len() < n {
                let p = 1 + rng.below(20) as usize;
                if !pos.contains(&p) {
                    pos.push(p);
                }
            }
            pos.sort();
            SymBlock { intradc: Some(dc), events: events_at(rng, &pos, 1, lc, 50) }
        });
        mbs.push(SymMb::Coded { kind: MbKind::Intra, dquant: 1, mvd: [[0; 2]; 4], blocks });
    }
    SymPicture { hdr, w: cfg.w, h: cfg.h, mbs, stuffing: vec![] }
}

#[derive(Clone, Copy, Debug)]
pub struct InterCfg {
    /// 0 = P, 2 = disposable P (Sorenson)
    pub ptype: u8,
    pub big_vectors_pct: u64,
    pub residual_pct: u64,
    pub truncate: Option<usize>,
    pub allow_q: bool,
}

fn gen_mvd(rng: &mut Rng, big: bool) -> [i32; 2] {
    if big {
        [rng.range(-32, 31) as i32, rng.range(-32, 31) as i32]
    } else {
        [rng.range(-5, 5) as i32, rng.range(-5, 5) as i32]
    }
}

/// A valid predicted picture (P or disposable P).
pub fn gen_inter(rng: &mut Rng, cfg: &PicCfg, ic: &InterCfg) -> SymPicture {
    let hdr = make_header(cfg, if ic.ptype == 0 { 1 } else { ic.ptype }, rng);
    let (mbw, mbh) = ((cfg.w + 15) / 16, (cfg.h + 15) / 16);
    let lc = LevelCfg { v1: cfg.flavour == Flavour::Sor(1), wide: cfg.wide_levels };
    let mut mbs = Vec::with_capacity(mbw * mbh);
    // macroblock-type weights: per picture, so that some pictures are homogeneous
    let weights: [u64; 7] = match rng.below(6) {
        0 => [1, 0, 0, 0, 0, 0, 0], // all not-coded
        1 => [0, 1, 0, 0, 0, 0, 0], // all INTER
        2 => [0, 0, 0, 1, 0, 0, 0], // all INTER4V
        _ => [2, 6, 2, 5, 2, 1, 1],
    };
    let total: u64 = weights.iter().sum();
    let bias = *rng.pick(&[0i8, 1, -1]);
    for _ in 0..mbw * mbh {
        let mut r = rng.below(total);
        let mut k = 0;
        while r >= weights[k] {
            r -= weights[k];
            k += 1;
        }
        // k: 0 not-coded, 1 INTER, 2 INTER+Q, 3 INTER4V, 4 INTRA, 5 INTRA+Q, 6 INTER4V+Q
        let kind = match k {
            0 => {
                mbs.push(SymMb::NotCoded);
                continue;
            }
            1 => MbKind::Inter,
            2 => MbKind::InterQ,
            3 => MbKind::Inter4V,
            4 => MbKind::Intra,
            5 => MbKind::IntraQ,
            _ => MbKind::Inter4VQ,
        };
        let kind = if !ic.allow_q {
            match kind {
                MbKind::InterQ => MbKind::Inter,
                MbKind::IntraQ => MbKind::Intra,
                MbKind::Inter4VQ => MbKind::Inter4V,
                k => k,
            }
        } else {
            kind
        };
        let big = rng.below(100) < ic.big_vectors_pct;
        let mvd: [[i32; 2]; 4] = std::array::from_fn(|_| gen_mvd(rng, big));
        let blocks: [SymBlock; 6] = std::array::from_fn(|_| {
            let shape = if kind.is_intra() {
                *rng.pick(&SHAPES)
            } else if rng.below(100) < ic.residual_pct {
                *rng.pick(&SHAPES[1..])
            } else {
                Shape::Empty
            };
            gen_block(rng, kind.is_intra(), shape, lc)
        });
        mbs.push(SymMb::Coded { kind, dquant: gen_dquant(rng, bias), mvd, blocks });
    }
    if let Some(t) = ic.truncate {
        mbs.truncate(t.min(mbw * mbh));
    }
    structure(rng, &mut mbs);
    let stuffing = stuffing_vec(rng, mbs.len(), cfg.stuffing_pct);
    SymPicture { hdr, w: cfg.w, h: cfg.h, mbs, stuffing }
}

/// Picture-size chooser with classes: tiny, around macroblock multiples, mid, large.
pub fn gen_size(rng: &mut Rng, max: usize) -> (usize, usize) {
    // rare classes that cross large-dimension thresholds cheaply: thin strips (one dimension up to
    // 4000, the other at most 16) and a few genuinely large pictures
    if max >= 56 {
        match rng.below(400) {
            0..=7 => {
                let long = *rng.pick(&[257usize, 511, 512, 513, 1023, 1024, 1025, 2047, 2048, 2049, 4000]) + rng.below(3) as usize;
                let long = if rng.chance(1, 2) { long } else { 257 + rng.below(3800) as usize };
                let short = 1 + rng.below(16) as usize;
                return if rng.chance(1, 2) { (long, short) } else { (short, long) };
            }
            8 => return (300 + rng.below(800) as usize, 200 + rng.below(600) as usize),
            _ => {}
        }
    }
    let one = |rng: &mut Rng| -> usize {
        let v = match rng.below(10) {
            0 => 1 + rng.below(3) as usize,
            1 | 2 => {
                let k = 1 + rng.below((max / 16).max(1) as u64) as usize;
                (k * 16).saturating_add_signed(rng.range(-1, 1) as isize)
            }
            3..=7 => 1 + rng.below(48.min(max) as u64) as usize,
            _ => 1 + rng.below(max as u64) as usize,
        };
        v.clamp(1, max)
    };
    (one(rng), one(rng))
}

pub fn gen_cfg(rng: &mut Rng, flavour: Flavour, w: usize, h: usize) -> PicCfg {
    PicCfg {
        flavour,
        w,
        h,
        quant: 1 + rng.below(31) as u8,
        tr: rng.byte(),
        wide_levels: rng.chance(1, 3),
        stuffing_pct: *rng.pick(&[0u64, 0, 0, 10, 50]),
        pei: *rng.pick(&[0usize, 0, 0, 1, 2, 3]),
        deblock_flag: rng.chance(1, 2),
        prefer_fixed_size_code: rng.chance(1, 2),
        force16: rng.chance(1, 10),
    }
}

/// Choose flavour + size together (fixed formats dictate their size).
pub fn gen_flavour_and_size(rng: &mut Rng, max: usize, allow_large_fixed: bool) -> (Flavour, usize, usize) {
    match rng.below(10) {
        0..=2 => {
            let (w, h) = gen_size(rng, max);
            // now and then another value of the 5-bit version field: everything but 1 is decoded like version 0
            (Flavour::Sor(if rng.chance(1, 8) { 2 + rng.below(30) as u8 } else { 0 }), w, h)
        }
        3..=5 => {
            let (w, h) = gen_size(rng, max);
            (Flavour::Sor(1), w, h)
        }
        6 => {
            let n = if allow_large_fixed { 5 } else { 2 };
            let f = STD_FIXED[rng.below(n) as usize];
            (Flavour::StdFixed, f.1, f.2)
        }
        _ => {
            let (w, h) = gen_size(rng, max);
            (Flavour::StdPlus, ((w + 3) / 4 * 4).clamp(4, 2048), ((h + 3) / 4 * 4).clamp(4, 1152))
        }
    }
}
