//! Small self-contained utilities: PRNG, hashing, panic capture, shard runner.

use std::cell::RefCell;
use std::panic::{catch_unwind, AssertUnwindSafe};
use std::sync::Once;

/// xorshift64* seeded through splitmix64 so that (seed, stream) pairs give
/// unrelated sequences.
#[derive(Clone)]
pub struct Rng {
    s: u64,
    /// Byte-driven mode (coverage-guided stage): decisions are read from these bytes, two per
    /// draw, until they run out; then the generator continues pseudo-randomly.
    tape: Option<(std::rc::Rc<Vec<u8>>, usize)>,
}

pub fn splitmix(mut z: u64) -> u64 {
    z = z.wrapping_add(0x9e3779b97f4a7c15);
    z = (z ^ (z >> 30)).wrapping_mul(0xbf58476d1ce4e5b9);
    z = (z ^ (z >> 27)).wrapping_mul(0x94d049bb133111eb);
    z ^ (z >> 31)
}

/// Set by the entry point when the monitors run under the Miri interpreter (~10^4 x slower): generators
/// that have no `Ctx` at hand keep their rare, expensive classes small.
pub static INTERPRETED: std::sync::atomic::AtomicBool = std::sync::atomic::AtomicBool::new(false);

thread_local! {
    static TAPE: RefCell<Option<Vec<u8>>> = const { RefCell::new(None) };
}

/// The next `Rng::new` on this thread reads its decisions from `bytes` (see `Rng::tape`).
pub fn set_decision_tape(bytes: &[u8]) {
    TAPE.with(|t| *t.borrow_mut() = Some(bytes.to_vec()));
}

pub fn clear_decision_tape() {
    TAPE.with(|t| *t.borrow_mut() = None);
}

impl Rng {
    pub fn new(seed: u64, stream: u64) -> Self {
        let s = splitmix(splitmix(seed) ^ splitmix(stream.wrapping_mul(0xd1342543de82ef95).wrapping_add(1)));
        let tape = TAPE.with(|t| t.borrow_mut().take()).map(|v| (std::rc::Rc::new(v), 0));
        Rng { s: if s == 0 { 0x1234_5678_9abc_def1 } else { s }, tape }
    }
    pub fn next(&mut self) -> u64 {
        if let Some((t, pos)) = &mut self.tape {
            if *pos + 2 <= t.len() {
                let v = u16::from_le_bytes([t[*pos], t[*pos + 1]]) as u64;
                *pos += 2;
                // the same 16 bits in every lane: whichever bits a caller looks at carry the decision
                return v * 0x0001_0001_0001_0001;
            }
        }
        let mut x = self.s;
        x ^= x >> 12;
        x ^= x << 25;
        x ^= x >> 27;
        self.s = x;
        x.wrapping_mul(0x2545F4914F6CDD1D)
    }
    /// Uniform in 0..n (n > 0).
    pub fn below(&mut self, n: u64) -> u64 {
        ((self.next() >> 11) as u128 * n as u128 >> 53) as u64
    }
    pub fn range(&mut self, lo: i64, hi_incl: i64) -> i64 {
        lo + self.below((hi_incl - lo + 1) as u64) as i64
    }
    pub fn chance(&mut self, num: u64, den: u64) -> bool {
        self.below(den) < num
    }
    pub fn byte(&mut self) -> u8 {
        (self.next() >> 32) as u8
    }
    pub fn pick<'a, T>(&mut self, xs: &'a [T]) -> &'a T {
        &xs[self.below(xs.len() as u64) as usize]
    }
    pub fn fill(&mut self, buf: &mut [u8]) {
        for c in buf.chunks_mut(8) {
            let v = self.next().to_le_bytes();
            c.copy_from_slice(&v[..c.len()]);
        }
    }
}

pub fn fnv64(data: &[u8]) -> u64 {
    let mut h: u64 = 0xcbf29ce484222325;
    for b in data {
        h ^= *b as u64;
        h = h.wrapping_mul(0x100000001b3);
    }
    splitmix(h)
}

pub fn fnv64_more(h0: u64, data: &[u8]) -> u64 {
    let mut h = h0 ^ 0xcbf29ce484222325;
    for b in data {
        h ^= *b as u64;
        h = h.wrapping_mul(0x100000001b3);
    }
    splitmix(h)
}

pub fn hex(data: &[u8]) -> String {
    let mut s = String::with_capacity(data.len() * 2);
    for b in data {
        s.push_str(&format!("{:02x}", b));
    }
    s
}

pub fn unhex(s: &str) -> Vec<u8> {
    let b = s.as_bytes();
    (0..b.len() / 2)
        .map(|i| u8::from_str_radix(std::str::from_utf8(&b[2 * i..2 * i + 2]).unwrap(), 16).unwrap())
        .collect()
}

/// A caught panic: message and source location (file:line) of the panic site.
#[derive(Clone, Debug)]
pub struct Panic {
    pub msg: String,
    pub loc: String,
}

thread_local! {
    static LAST_PANIC: RefCell<Option<Panic>> = const { RefCell::new(None) };
    static QUIET: RefCell<u32> = const { RefCell::new(0) };
}

static HOOK: Once = Once::new();

fn install_hook() {
    HOOK.call_once(|| {
        let prev = std::panic::take_hook();
        std::panic::set_hook(Box::new(move |info| {
            let loc = info
                .location()
                .map(|l| format!("{}:{}", short_path(l.file()), l.line()))
                .unwrap_or_else(|| "?".into());
            let msg = if let Some(s) = info.payload().downcast_ref::<&str>() {
                s.to_string()
            } else if let Some(s) = info.payload().downcast_ref::<String>() {
                s.clone()
            } else {
                "<non-string panic>".into()
            };
            let quiet = QUIET.with(|q| *q.borrow()) > 0;
            LAST_PANIC.with(|p| *p.borrow_mut() = Some(Panic { msg, loc }));
            if !quiet {
                prev(info);
            }
        }));
    });
}

/// Normalise a panic location so signatures are stable across checkouts:
/// `/repo/h263/src/x.rs` -> `h263/src/x.rs`; registry paths -> crate-relative.
pub fn short_path(p: &str) -> String {
    if let Some(i) = p.find("/repo/") {
        return p[i + 6..].to_string();
    }
    if let Some(i) = p.find("/registry/src/") {
        let rest = &p[i + 14..];
        if let Some(j) = rest.find('/') {
            return format!("dep:{}", &rest[j + 1..]);
        }
    }
    if let Some(i) = p.find("/rustc/") {
        let rest = &p[i + 7..];
        if let Some(j) = rest.find('/') {
            return format!("std:{}", &rest[j + 1..]);
        }
    }
    if let Some(i) = p.find("/library/") {
        return format!("std:{}", &p[i + 1..]);
    }
    p.to_string()
}

/// Run `f`, converting a panic in the code under test into an `Err(Panic)`.
pub fn catch<T>(f: impl FnOnce() -> T) -> Result<T, Panic> {
    install_hook();
    QUIET.with(|q| *q.borrow_mut() += 1);
    LAST_PANIC.with(|p| *p.borrow_mut() = None);
    let r = catch_unwind(AssertUnwindSafe(f));
    QUIET.with(|q| *q.borrow_mut() -= 1);
    match r {
        Ok(v) => Ok(v),
        Err(_) => Err(LAST_PANIC
            .with(|p| p.borrow_mut().take())
            .unwrap_or(Panic { msg: "?".into(), loc: "?".into() })),
    }
}

static PART: std::sync::atomic::AtomicUsize = std::sync::atomic::AtomicUsize::new(0);
static PARTS: std::sync::atomic::AtomicUsize = std::sync::atomic::AtomicUsize::new(1);

/// Restrict this process to the shards `s` with `s % parts == part` (used to spread a
/// workload over several slow interpreter processes, e.g. Miri).
pub fn set_partition(part: usize, parts: usize) {
    PART.store(part, std::sync::atomic::Ordering::SeqCst);
    PARTS.store(parts.max(1), std::sync::atomic::Ordering::SeqCst);
}

pub fn partition() -> (usize, usize) {
    (PART.load(std::sync::atomic::Ordering::SeqCst), PARTS.load(std::sync::atomic::Ordering::SeqCst))
}

/// Run the shard closures of this process's partition over `threads` OS threads and
/// collect the results in shard order.
pub fn par_shards<T: Send>(n_shards: usize, threads: usize, f: impl Fn(usize) -> T + Sync) -> Vec<T> {
    use std::sync::atomic::{AtomicUsize, Ordering};
    use std::sync::Mutex;
    let (part, parts) = partition();
    let mine: Vec<usize> = (0..n_shards).filter(|s| s % parts == part).collect();
    if threads <= 1 {
        return mine.into_iter().map(&f).collect();
    }
    let next = AtomicUsize::new(0);
    let out: Mutex<Vec<Option<T>>> = Mutex::new((0..mine.len()).map(|_| None).collect());
    let threads = threads.min(mine.len().max(1));
    std::thread::scope(|s| {
        for _ in 0..threads {
            s.spawn(|| loop {
                let i = next.fetch_add(1, Ordering::Relaxed);
                if i >= mine.len() {
                    break;
                }
                let r = f(mine[i]);
                out.lock().unwrap()[i] = Some(r);
            });
        }
    });
    out.into_inner().unwrap().into_iter().map(|x| x.expect("shard result")).collect()
}

pub fn thread_cpu_seconds() -> f64 {
    // CLOCK_THREAD_CPUTIME_ID via /proc is awkward; std has no API. We use
    // process-independent wall time only for reporting; verdict budgets are in
    // logical steps. (Kept as a helper for evidence timing.)
    0.0
}
