//! C15 - one decode call consumes exactly one picture of a stream.
//! Twin runs: N padded pictures concatenated in one reader versus one reader per picture,
//! plus the reader position (hook) after every successful call.

use crate::gen::*;
use crate::json::J;
use crate::report::Report;
use crate::sut::{abs_pos, CountRead, Dec, Outcome};
use crate::util::{catch, fnv64, hex, par_shards, Rng};
use crate::{Ctx, Tier};
use h263_rs::parser::H263Reader;

pub fn rule() -> String {
    "cases = sequences of 2-8 valid pictures (I / P / disposable P / early-ending P / P without restated format, Sorenson and standard mode, same-size and size-changing at I pictures), each padded with 0..7 zero bits to a byte boundary and concatenated in one source: call i on the shared reader must give the outcome and picture of decoding picture i in its own reader on a twin decoder, and after call i the reader must stand between the end of picture i's macroblock data and the end of its padding; stuffing and PEI bytes vary the end-of-data bit phase over 0..7; distinct by hash of the concatenated bytes; non-trivial = at least two pictures decoded from the shared reader".into()
}

pub fn case(ctx: &Ctx, shard: usize, index: u64, rep: &mut Report) {
    let mut rng = Rng::new(ctx.seed ^ 0xC15, ((shard as u64) << 40) | index);
    rep.evaluations += 1;
    let coords = || crate::mon::coords("C15", ctx, shard, index);
    let sorenson = rng.chance(3, 5);
    let flavour = if sorenson { Flavour::Sor(if rng.chance(1, 6) { 2 + rng.below(30) as u8 } else { rng.below(2) as u8 }) } else if rng.chance(1, 8) { Flavour::StdFixed } else { Flavour::StdPlus };
    let pick_size = |rng: &mut Rng| -> (usize, usize) {
        if flavour == Flavour::StdFixed {
            let f = STD_FIXED[rng.below(2) as usize];
            return (f.1, f.2);
        }
        let (w, h) = gen_size(rng, 64);
        if sorenson {
            (w, h)
        } else {
            (((w + 3) / 4 * 4).clamp(4, 2048), ((h + 3) / 4 * 4).clamp(4, 1152))
        }
    };
    let long = flavour != Flavour::StdFixed && rng.chance(1, 300);
    let (mut w, mut h) = if long { (16, 16) } else { pick_size(&mut rng) };
    // a few very long streams in one reader (buffer growth, counters, thousands of bytes consumed)
    let n = if long { 260 + rng.below(400) as usize } else { 2 + rng.below(7) as usize };
    let mut pics: Vec<(Vec<u8>, usize, char)> = vec![]; // (padded bytes, bits of data before padding, kind)
    let mut have_ref = false;
    let mut umv_pictures = 0u64;
    let mut tr = rng.byte();
    for _ in 0..n {
        tr = tr.wrapping_add(1 + rng.below(3) as u8);
        let mut cfg = gen_cfg(&mut rng, flavour, w, h);
        cfg.tr = tr;
        let (sym, kind) = if have_ref && rng.chance(2, 3) {
            let disp = sorenson && rng.chance(1, 4);
            // some predicted pictures end early (the remaining macroblocks repeat the reference): in its own
            // reader such a picture ends with the data, in the shared reader with the next start code
            let nmb = ((w + 15) / 16) * ((h + 15) / 16);
            // (standard mode only: a Sorenson decoder deliberately does not resynchronise to start codes, so an
            // early-ending Sorenson picture is only decodable as the last thing in its source)
            let early = !long && !sorenson && rng.chance(1, 4);
            let truncate = if early { Some(rng.below(nmb as u64) as usize) } else { None };
            let ic = InterCfg { ptype: if disp { 2 } else { 0 }, big_vectors_pct: 30, residual_pct: 50, truncate, allow_q: true };
            let mut sym = gen_inter(&mut rng, &cfg, &ic);
            // ... and some standard-mode ones do not restate the picture format
            let formatless = rng.chance(1, 3) && drop_format(&mut sym);
            // ... and some carry their vector differences in the Annex D (unrestricted vectors) syntax; no
            // property says what such a picture looks like, but it ends where its data ends like any other
            let umv = !formatless && flavour == Flavour::StdPlus && rng.chance(1, 4) && set_umv_syntax(&mut rng, &mut sym);
            if umv {
                umv_pictures += 1;
            }
            (sym, if early { 'T' } else if formatless { 'U' } else if disp { 'D' } else { 'P' })
        } else {
            if have_ref && !long && rng.chance(1, 3) {
                // size change is legal at an I picture
                let s = pick_size(&mut rng);
                w = s.0;
                h = s.1;
                cfg.w = w;
                cfg.h = h;
            }
            have_ref = true;
            (gen_intra(&mut rng, &cfg), 'I')
        };
        let (mut bw, offs) = sym.encode_bits();
        let nbits = *offs.last().unwrap();
        bw.align();
        pics.push((bw.bytes, nbits, kind));
    }
    let all: Vec<u8> = pics.iter().flat_map(|p| p.0.iter().copied()).collect();
    let kinds: String = pics.iter().map(|p| p.2).collect();
    let describe = || format!("{} sequence {} sizes up to {}x{}, {} bytes: {}", flavour.name(), kinds, w, h, all.len(), hex(&all[..all.len().min(40)]));
    let scal = sorenson && rng.chance(1, 4);
    let mut shared = Dec::new(sorenson, scal);
    let mut twin = Dec::new(sorenson, scal);
    twin.chunk = *rng.pick(&[usize::MAX, usize::MAX, 1, 5, 300]);
    let (src, _data, delivered) = CountRead::new(&all);
    // the source hands out at most `chunk` bytes per read call
    let chunk = *rng.pick(&[usize::MAX, usize::MAX, 1, 2, 3, 7, 64, 4096]);
    let interrupts = if rng.chance(1, 5) { 2 + rng.below(5) as usize } else { 0 };
    if interrupts > 0 {
        rep.count("sequences_over_an_interrupting_source");
    }
    // one read call somewhere in the stream may fail with a transient error; the failed decode call is repeated
    let stall = if rng.chance(1, 5) { Some((rng.below(all.len() as u64 + 1) as usize, rng.below(3) as u8)) } else { None };
    if rng.chance(1, 6) {
        twin.stall = Some((rng.below(1001) as usize, rng.below(3) as u8));
    }
    let mut rd = H263Reader::from_source(src.with_chunk(chunk).with_interrupts(interrupts).with_stall(stall));
    rep.count(&format!("source_chunk={}", if chunk == usize::MAX { "unlimited".to_string() } else { chunk.to_string() }));
    let mut start = 0usize;
    let mut decoded = 0;
    for (i, (bytes, nbits, kind)) in pics.iter().enumerate() {
        let ot = twin.decode(bytes);
        let mut os = shared.decode_with(&mut rd);
        if matches!(&os, Outcome::Err(k) if k.starts_with("Io(")) {
            // the transient source error surfaced: a failed call changes nothing, so it is simply repeated
            os = shared.decode_with(&mut rd);
            rep.count("calls_repeated_after_transient_source_error");
        }
        if let Outcome::Panic { msg, loc } = &os {
            rep.violation(format!("panic@{}", loc), format!("call {} on the shared reader panicked: {} :: {}", i, msg, describe()), coords());
            return;
        }
        if ot != Outcome::Ok {
            // a generated picture that does not decode on its own is another property's business
            rep.count(&format!("void:own-reader-failed:{}", ot.short()));
            return;
        }
        if os != ot {
            rep.violation(format!("outcome/{}/{}", if sorenson { "sorenson" } else { "std" }, os.short()), format!("picture {} ({}) decodes in its own reader but call {} on the shared reader gave {} :: {}", i, kind, i, os.short(), describe()), coords());
            return;
        }
        if shared.snapshot() != twin.snapshot() {
            rep.violation(format!("picture-differs/{}", if sorenson { "sorenson" } else { "std" }), format!("call {} ({}) on the shared reader produced a different picture than the same bytes in their own reader :: {}", i, kind, describe()), coords());
            return;
        }
        let p = match catch(|| abs_pos(&rd, &delivered)) {
            Ok(p) => p,
            Err(e) => {
                rep.inconclusive.push(format!("position hook failed: {}", e.msg));
                return;
            }
        };
        let (lo, hi) = (start + nbits, start + bytes.len() * 8);
        if p < lo || p > hi {
            rep.violation(format!("position/{}", if p < lo { "short" } else { "overrun" }), format!("after call {} ({}) the reader is at bit {}, picture data ends at {} and its padding at {} :: {}", i, kind, p, lo, hi, describe()), coords());
            return;
        }
        rep.count(&format!("end_phase={}", nbits % 8));
        rep.count(&format!("kind={}", kind));
        if i > 0 {
            rep.count(&format!("bigram:{}{}", pics[i - 1].2, kind));
        }
        if i > 0 && pics[i - 1].2 == 'T' {
            rep.count(if sorenson { "early_end_then_next_picture:sorenson" } else { "early_end_then_next_picture:standard" });
            if pics[i - 1].1 % 8 == 0 {
                rep.count(if sorenson { "early_end_phase0_then_next_picture:sorenson" } else { "early_end_phase0_then_next_picture:standard" });
            }
        }
        rep.count("calls_compared");
        start += bytes.len() * 8;
        decoded += 1;
    }
    rep.count(&format!("len={}", if long { "long".to_string() } else { n.to_string() }));
    rep.count(if sorenson { "mode=sorenson" } else { "mode=standard" });
    rep.count("sequences_completed");
    rep.add("completed_pictures_with_annex_d_vector_syntax", umv_pictures);
    if decoded >= 2 {
        rep.distinct.insert(fnv64(&all));
    }
    if shard == 0 && index < 4 {
        rep.sample(8, || J::obj().set("flavour", flavour.name()).set("kinds", kinds.clone()).set("picture_bytes", J::Arr(pics.iter().map(|p| J::Int(p.0.len() as i64)).collect())).set("data_bits", J::Arr(pics.iter().map(|p| J::Int(p.1 as i64)).collect())));
    }
}

/// Compare a prepared sequence of complete pictures in one reader against one reader per picture.
/// `pics`: (padded bytes, data bits before padding, kind).
fn compare_sequence(sorenson: bool, pics: &[(Vec<u8>, usize, char)], what: &str, rep: &mut Report, coords: &dyn Fn() -> J) -> bool {
    let all: Vec<u8> = pics.iter().flat_map(|p| p.0.iter().copied()).collect();
    let mut shared = Dec::new(sorenson, false);
    let mut twin = Dec::new(sorenson, false);
    let (src, _data, delivered) = CountRead::new(&all);
    let mut rd = H263Reader::from_source(src);
    let mut start = 0usize;
    rep.evaluations += 1;
    for (i, (bytes, nbits, kind)) in pics.iter().enumerate() {
        let ot = twin.decode(bytes);
        let os = shared.decode_with(&mut rd);
        if let Outcome::Panic { msg, loc } = &os {
            rep.violation(format!("panic@{}", loc), format!("{}: call {} on the shared reader panicked: {}", what, i, msg), coords());
            return false;
        }
        if ot != Outcome::Ok {
            rep.count(&format!("ladder_void:own-reader-failed:{}", ot.short()));
            return false;
        }
        if os != ot {
            rep.violation(format!("ladder/outcome/{}", os.short()), format!("{}: picture {} ({}, {} bytes) decodes in its own reader but call {} on the shared reader gave {}", what, i, kind, bytes.len(), i, os.short()), coords());
            return false;
        }
        if shared.snapshot() != twin.snapshot() {
            rep.violation("ladder/picture-differs", format!("{}: call {} ({}) produced a different picture than the same bytes in their own reader", what, i, kind), coords());
            return false;
        }
        let p = abs_pos(&rd, &delivered);
        let (lo, hi) = (start + nbits, start + bytes.len() * 8);
        if p < lo || p > hi {
            rep.violation(format!("ladder/position/{}", if p < lo { "short" } else { "overrun" }), format!("{}: after call {} ({}) the reader is at bit {}, picture data ends at {} and its padding at {}", what, i, kind, p, lo, hi), coords());
            return false;
        }
        start += bytes.len() * 8;
    }
    true
}

/// Switch a predicted PLUSPTYPE picture to the Annex D vector syntax; the vector differences become a mix
/// of zero, the smallest (+-0.5: three-bit codes, also as a pair) and larger magnitudes.
fn set_umv_syntax(rng: &mut Rng, pic: &mut crate::model::syntax::SymPicture) -> bool {
    use crate::model::syntax::Hdr;
    use crate::model::syntax::SymMb;
    let ok = match &mut pic.hdr {
        Hdr::Std(h) => match h.plus.as_mut() {
            Some(p) if p.ufep == 1 && p.ptype != 0 => {
                p.umv = true;
                p.uui_unlimited = rng.chance(1, 2);
                true
            }
            _ => false,
        },
        _ => false,
    };
    if !ok {
        return false;
    }
    for mb in pic.mbs.iter_mut() {
        if let SymMb::Coded { mvd, .. } = mb {
            for v in mvd.iter_mut() {
                match rng.below(4) {
                    0 => *v = [1, 1],
                    1 => {
                        for c in v.iter_mut() {
                            *c = *rng.pick(&[-1, 0, 1]);
                        }
                    }
                    2 => {
                        for c in v.iter_mut() {
                            if *c != 99 {
                                *c = rng.range(-40, 40) as i32;
                            }
                        }
                    }
                    _ => {}
                }
            }
        }
    }
    true
}

fn padded(p: &crate::model::syntax::SymPicture, kind: char) -> (Vec<u8>, usize, char) {
    let (mut bw, offs) = p.encode_bits();
    let nbits = *offs.last().unwrap();
    bw.align();
    (bw.bytes, nbits, kind)
}

/// Boundary-value ladder: large pictures (macroblock counts around 2^12..2^14, extreme dimensions)
/// and pictures with a huge coded size (4 KiB / 64 KiB / 1 MiB of stuffing) followed by more pictures.
pub fn ladder(ctx: &Ctx, k: usize, rep: &mut Report) {
    use super::ladder as L;
    let mut rng = Rng::new(ctx.seed ^ 0xC15AD, k as u64);
    let coords = || J::obj().set("property", "C15").set("kind", "ladder").set("tier", ctx.tier_name()).set("seed", ctx.seed).set("stage", ctx.stage.clone()).set("k", k);
    let sizes = [(1040usize, 1024usize), (2064, 1024), (2048, 2064), (65535, 16), (16, 65535), (65521, 3), (4097, 9), (1024, 1024), (512, 512), (2048, 1152)];
    if k >= 10 + 18 {
        // extra-information ladder: a picture whose header carries about 2^8, 2^9, ... PEI/PSUPP bytes, then more pictures
        let j = k - 28;
        let n = L::PEI_LADDER[j % L::PEI_LADDER.len()];
        let flavour = if j >= L::PEI_LADDER.len() { Flavour::StdFixed } else { Flavour::Sor((j % 2) as u8) };
        let (w, h) = if flavour == Flavour::StdFixed { (128, 96) } else { (32, 16) };
        let c0 = L::cfg_for(&mut rng, flavour, w, h, n);
        let mut c1 = L::cfg_for(&mut rng, flavour, w, h, 0);
        c1.tr = c0.tr.wrapping_add(1);
        let seq = vec![padded(&L::large_intra(&mut rng, &c0), 'I'), padded(&L::large_inter(&mut rng, &c1, false, None), 'P'), padded(&L::large_intra(&mut rng, &c1), 'I')];
        if compare_sequence(flavour.sorenson(), &seq, &format!("{} picture with {} extra-information bytes, then P and I", flavour.name(), n), rep, &coords) {
            rep.count("ladder_extra_information_sequences");
        }
        return;
    }
    if k < sizes.len() {
        let (w, h) = sizes[k];
        let flavour = if k == sizes.len() - 1 { Flavour::StdPlus } else { Flavour::Sor((k % 2) as u8) };
        let mut cfg = L::cfg_for(&mut rng, flavour, w, h, 0);
        let i0 = padded(&L::large_intra(&mut rng, &cfg), 'I');
        cfg.tr = cfg.tr.wrapping_add(1);
        let p0 = padded(&L::large_inter(&mut rng, &cfg, false, None), 'P');
        cfg.tr = cfg.tr.wrapping_add(1);
        let p1 = padded(&L::large_inter(&mut rng, &cfg, flavour.sorenson(), None), 'D');
        let small = L::cfg_for(&mut rng, flavour, 16, 16, 0);
        let i1 = padded(&L::large_intra(&mut rng, &small), 'I');
        if compare_sequence(flavour.sorenson(), &[i0, p0, p1, i1], &format!("large {}x{} {} I,P,D then a small I", w, h, flavour.name()), rep, &coords) {
            rep.count("ladder_large_sequences");
        }
    } else {
        // coded size ladder: stuffing codes make the picture about `bytes` long; the end phase varies with the content
        let bytes = [4000usize, 4096, 4200, 65000, 65536, 66000, 1_048_000, 1_049_600, 1_100_000][(k - sizes.len()) % 9];
        let flavour = Flavour::Sor((k % 2) as u8);
        let inter_first = k % 4 == 3;
        let mut seq = vec![];
        let c0 = L::cfg_for(&mut rng, flavour, 32, 32, 0);
        if inter_first {
            seq.push(padded(&L::large_intra(&mut rng, &c0), 'I'));
        }
        // model-side, stuffing is part of the picture's macroblock data: the end of data is after the last macroblock
        let sp = L::stuffed_picture(&mut rng, flavour, bytes, inter_first);
        seq.push(padded(&sp, if inter_first { 'P' } else { 'I' }));
        let mut c1 = c0.clone();
        c1.tr = c1.tr.wrapping_add(9);
        seq.push(padded(&L::large_inter(&mut rng, &c1, false, None), 'P'));
        seq.push(padded(&L::large_intra(&mut rng, &c1), 'I'));
        if compare_sequence(true, &seq, &format!("picture with about {} bytes of stuffing, then P and I", bytes), rep, &coords) {
            rep.count("ladder_stuffed_sequences");
            rep.count(&format!("ladder_stuffed_end_phase={}", seq[if inter_first { 1 } else { 0 }].1 % 8));
        }
    }
}

pub const LADDER_N: usize = 10 + 18 + 18;

pub fn run(ctx: &Ctx) -> (Report, String) {
    let per_shard = ctx.n(3000, 40000);
    let reps = par_shards(64, ctx.threads, |s| {
        let mut rep = Report::new();
        for i in 0..per_shard {
            crate::mon::guarded(&mut rep, || crate::mon::coords("C15", ctx, s, i), |rep| case(ctx, s, i, rep));
        }
        rep
    });
    let mut rep = Report::merge_all(reps);
    if !ctx.miri() && ctx.is_main() {
        let lr = par_shards(LADDER_N, ctx.threads, |k| {
            let mut r = Report::new();
            crate::mon::guarded(&mut r, || J::obj().set("property", "C15").set("kind", "ladder").set("k", k), |r| ladder(ctx, k, r));
            r
        });
        rep.merge(Report::merge_all(lr));
        rep.require("ladder_large_sequences", 9);
        rep.require("ladder_stuffed_sequences", 16);
        rep.require("ladder_extra_information_sequences", 16);
    }
    if ctx.is_main() {
        let m = ctx.scale_pct;
        rep.require("sequences_completed", if ctx.tier == Tier::Thorough { 2_000_000 } else { 150_000 } * m / 100);
        for k in ["mode=sorenson", "mode=standard", "end_phase=0", "end_phase=1", "end_phase=2", "end_phase=3", "end_phase=4", "end_phase=5", "end_phase=6", "end_phase=7", "kind=I", "kind=P", "kind=D", "bigram:II", "bigram:IP", "bigram:PI", "bigram:PP", "bigram:DP", "bigram:PD", "sequences_over_an_interrupting_source", "calls_repeated_after_transient_source_error", "kind=T", "kind=U", "bigram:TP", "bigram:TI", "bigram:UU", "early_end_then_next_picture:standard", "early_end_phase0_then_next_picture:standard"] {
            rep.require(k, 100 * m / 100);
        }
    }
    (rep, rule())
}
