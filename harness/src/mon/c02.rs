//! C02 - intra pictures reconstruct exactly as H.263 prescribes.
//! Differential monitor: symbolic picture -> model encoder -> real decoder,
//! compared sample by sample with the model reconstruction (interval = tolerance window).

use crate::gen::*;
use crate::json::J;
use crate::model::recon::{compare, reconstruct};
use crate::model::syntax::*;
use crate::report::Report;
use crate::sut::{Dec, Outcome};
use crate::util::{fnv64, hex, par_shards, Rng};
use crate::{Ctx, Tier};

const SHARDS: usize = 64;

pub fn rule() -> String {
    "cases = valid intra pictures generated symbolically (flavour x size x quantiser x DQUANT walk x INTRADC x events x stuffing x PEI), encoded by the model's own encoder and decoded by the real decoder; a case is non-trivial if it has at least one block with AC events, and distinct by the hash of its encoded bytes".into()
}

pub fn run(ctx: &Ctx) -> (Report, String) {
    let per_shard = ctx.n(6000, 100000);
    let mut pre = Report::new();
    conformance(&mut pre);
    let reps = par_shards(SHARDS, ctx.threads, |s| {
        let mut r = Report::new();
        for i in 0..per_shard {
            crate::mon::guarded(&mut r, || crate::mon::coords("C02", ctx, s, i), |r| case(ctx, s, i, r));
        }
        r
    });
    let mut rep = Report::merge_all(reps);
    rep.merge(pre);
    if !ctx.miri() && (ctx.is_main() || ctx.stage == "asan") {
        let n = ladder_items(ctx).len();
        let lr = par_shards(n, ctx.threads, |k| {
            let mut r = Report::new();
            crate::mon::guarded(&mut r, || J::obj().set("property", "C02").set("kind", "ladder").set("k", k), |r| ladder_case(ctx, k, r));
            r
        });
        rep.merge(Report::merge_all(lr));
        if ctx.is_main() {
            rep.require("ladder_pictures_compared", n as u64);
        }
        let pr = par_shards(64, ctx.threads, |s| {
            let mut r = Report::new();
            let mut k = s;
            while k < PAIRS_N {
                crate::mon::guarded(&mut r, || J::obj().set("property", "C02").set("kind", "pairs").set("k", k), |r| pairs_case(ctx, k, r));
                k += 64;
            }
            r
        });
        rep.merge(Report::merge_all(pr));
        if ctx.is_main() {
            rep.require("equal_magnitude_pair_pictures", PAIRS_N as u64);
        }
        let n_ext = ctx.n(2000, 60_000) as usize;
        let er = par_shards(64, ctx.threads, |s| {
            let mut r = Report::new();
            let mut k = s;
            while k < n_ext {
                crate::mon::guarded(&mut r, || J::obj().set("property", "C02").set("kind", "extreme").set("k", k), |r| extreme_case(ctx, k, r));
                k += 64;
            }
            r
        });
        rep.merge(Report::merge_all(er));
        if ctx.is_main() {
            rep.require("full_range_separable_block_pictures", n_ext as u64);
        }
    }
    if ctx.is_main() {
        rep.require("pictures_compared", if ctx.tier == Tier::Quick { 250_000 } else { 4_000_000 } * ctx.scale_pct / 100);
        rep.require("cases_with_history", 1000 * ctx.scale_pct / 100);
        rep.require("std_intra_pictures_with_header_modes", 1000 * ctx.scale_pct / 100);
        rep.require("chunked_source_cases", 1000 * ctx.scale_pct / 100);
        rep.require("calls_repeated_after_transient_source_error", 1000 * ctx.scale_pct / 100);
        rep.require("calls_repeated_after_late_delivery", 1000 * ctx.scale_pct / 100);
        for k in ["flavour=sorenson-v0", "flavour=sorenson-v1", "flavour=std-plusptype", "shape=first-row", "shape=first-col", "shape=dense", "shape=last63", "shape=dc-only", "esc=Esc7", "esc=Esc8", "esc=Esc11", "esc=Short", "kind=INTRA+Q"] {
            rep.require(k, 50);
        }
    }
    (rep, rule())
}

/// Every codeword of the model's TCOEF / MCBPC-I / CBPY tables through the real tree walker.
pub fn conformance(rep: &mut Report) {
    use crate::model::bits::BitWriter;
    use crate::model::tables::*;
    use h263_rs::parser::H263Reader;
    use h263_rs::verif::tables as rt;
    let feed = |c: (u32, u32)| -> Vec<u8> {
        let mut w = BitWriter::new();
        w.code(c);
        w.put(0xAAAA, 16);
        w.bytes
    };
    // TCOEF
    let tt = rt::tcoef_table();
    for e in TCOEF.iter() {
        let bytes = feed((e.3, e.4));
        let mut rd = H263Reader::from_source(&bytes[..]);
        let got = rd.read_vlc(&tt[..]);
        let want = Some((false, e.0 == 1, e.1, e.2));
        rep.count("conformance_codewords");
        match got {
            Ok(g) if g == want && rd.verif_position().0 == e.4 as usize => {}
            other => rep.violation("table/TCOEF", format!("TCOEF codeword {:?} decodes to {:?} (consumed {})", e, other.map_err(|e| format!("{:?}", e)), rd.verif_position().0), J::obj().set("property", "C02").set("kind", "conformance")),
        }
    }
    {
        let bytes = feed(TCOEF_ESCAPE);
        let mut rd = H263Reader::from_source(&bytes[..]);
        let got = rd.read_vlc(&tt[..]);
        rep.count("conformance_codewords");
        if !matches!(got, Ok(Some((true, _, _, _)))) {
            rep.violation("table/TCOEF", "escape code not recognised".to_string(), J::obj().set("property", "C02").set("kind", "conformance"));
        }
    }
    // MCBPC-I
    for (q, row) in MCBPC_I.iter().enumerate() {
        for (cbpc, c) in row.iter().enumerate() {
            let bytes = feed(*c);
            let mut rd = H263Reader::from_source(&bytes[..]);
            let got = rd.read_vlc(rt::mcbpc_i_table());
            rep.count("conformance_codewords");
            let want_kind = if q == 1 { "IntraQ" } else { "Intra" };
            let ok = match &got {
                Ok(rt::BlockPatternEntry::Valid(k, cb, cr)) => format!("{:?}", k) == want_kind && *cb == (cbpc & 2 != 0) && *cr == (cbpc & 1 != 0),
                _ => false,
            };
            if !ok {
                rep.violation("table/MCBPC_I", format!("MCBPC-I {}/{} decodes to {:?}", want_kind, cbpc, got.map_err(|e| format!("{:?}", e))), J::obj().set("property", "C02").set("kind", "conformance"));
            }
        }
    }
    {
        let bytes = feed(MCBPC_STUFFING);
        let mut rd = H263Reader::from_source(&bytes[..]);
        rep.count("conformance_codewords");
        if !matches!(rd.read_vlc(rt::mcbpc_i_table()), Ok(rt::BlockPatternEntry::Stuffing)) {
            rep.violation("table/MCBPC_I", "stuffing not recognised".to_string(), J::obj().set("property", "C02").set("kind", "conformance"));
        }
    }
    // CBPY
    for (pat, c) in CBPY.iter().enumerate() {
        let bytes = feed(*c);
        let mut rd = H263Reader::from_source(&bytes[..]);
        let got = rd.read_vlc(rt::cbpy_table());
        rep.count("conformance_codewords");
        let want = [pat & 8 != 0, pat & 4 != 0, pat & 2 != 0, pat & 1 != 0];
        if !matches!(got, Ok(Some(g)) if g == want) {
            rep.violation("table/CBPY", format!("CBPY {:04b} decodes to {:?}", pat, got.map_err(|e| format!("{:?}", e))), J::obj().set("property", "C02").set("kind", "conformance"));
        }
    }
}

fn describe(pic: &SymPicture, flavour: Flavour, bytes: &[u8]) -> J {
    let nb: usize = pic.mbs.iter().map(|m| if let SymMb::Coded { blocks, .. } = m { blocks.iter().filter(|b| !b.events.is_empty()).count() } else { 0 }).sum();
    let mut j = J::obj().set("flavour", flavour.name()).set("w", pic.w).set("h", pic.h).set("pquant", pic.quant() as u64).set("macroblocks", pic.mbs.len()).set("blocks_with_events", nb).set("encoded_len", bytes.len());
    if let Some(SymMb::Coded { kind, dquant, blocks, .. }) = pic.mbs.first() {
        j.put("mb0", J::obj().set("kind", kind.name()).set("dquant", *dquant as i64).set("intradc", J::Arr(blocks.iter().map(|b| J::Int(b.intradc.unwrap_or(0) as i64)).collect())).set("block0_events", J::Arr(blocks[0].events.iter().take(6).map(|e| J::Str(format!("run={} level={} {:?}", e.run, e.level, e.esc))).collect())));
    }
    j.put("bytes_prefix", hex(&bytes[..bytes.len().min(24)]));
    j
}

/// Boundary-value ladder: picture dimensions, macroblock counts, sample counts and
/// extra-information byte counts around powers of two (see mon/ladder.rs).
pub fn ladder_items(ctx: &Ctx) -> Vec<(Flavour, usize, usize, usize)> {
    let mut rng = Rng::new(ctx.seed ^ 0xC02AD, 0);
    let mut v = vec![];
    for (i, (w, h)) in super::ladder::boundary_dims(&mut rng, ctx.tier == Tier::Thorough).into_iter().enumerate() {
        v.push((Flavour::Sor((i % 2) as u8), w, h, 0));
    }
    for (w, h) in super::ladder::std_boundary_dims() {
        v.push((Flavour::StdPlus, w, h, 0));
    }
    // sizes that have a size / format code of their own, signalled through that code
    for (i, (w, h)) in [(352usize, 288usize), (176, 144), (128, 96), (320, 240), (160, 120)].into_iter().enumerate() {
        v.push((Flavour::Sor((i % 2) as u8), w, h, 0));
    }
    for f in STD_FIXED {
        v.push((Flavour::StdFixed, f.1, f.2, 0));
    }
    for (i, n) in super::ladder::PEI_LADDER.iter().enumerate() {
        v.push((if i % 3 == 2 { Flavour::StdFixed } else { Flavour::Sor((i % 2) as u8) }, if i % 3 == 2 { 128 } else { 16 }, if i % 3 == 2 { 96 } else { 16 }, *n));
    }
    v
}

pub fn ladder_case(ctx: &Ctx, k: usize, rep: &mut Report) {
    let items = ladder_items(ctx);
    let (flavour, w, h, pei) = items[k];
    let mut rng = Rng::new(ctx.seed ^ 0xC02AD, 1 + k as u64);
    let mut cfg = super::ladder::cfg_for(&mut rng, flavour, w, h, pei);
    if flavour.sorenson() && [(352usize, 288usize), (176, 144), (128, 96), (320, 240), (160, 120)].contains(&(w, h)) {
        cfg.prefer_fixed_size_code = true;
        cfg.force16 = false;
        rep.count("ladder:predefined-size-code");
    }
    let pic = super::ladder::large_intra(&mut rng, &cfg);
    let before = rep.get("pictures_compared");
    judge(rep, &pic, flavour, &cfg, J::obj().set("property", "C02").set("kind", "ladder").set("tier", ctx.tier_name()).set("seed", ctx.seed).set("stage", ctx.stage.clone()).set("k", k).set("what", format!("{} {}x{} pei={}", flavour.name(), w, h, pei)), k == 0);
    if rep.get("pictures_compared") > before {
        rep.count("ladder_pictures_compared");
        rep.count(&format!("ladder:{}", if pei > 0 { "pei" } else if w.max(h) >= 65519 { "dim>=65519" } else if w.max(h) > 2048 { "dim>2048" } else if ((w + 15) / 16) * ((h + 15) / 16) > 4096 { "mb>4096" } else { "other" }));
    }
}

/// Directed: every pair of scan positions carrying coefficients of equal magnitude (all four sign
/// combinations) - exact cancellations inside the transform - six blocks per 16x16 picture.
pub fn pairs_case(ctx: &Ctx, k: usize, rep: &mut Report) {
    let mut rng = Rng::new(ctx.seed ^ 0xC02BA, k as u64);
    // enumerate (p1 < p2) over 1..=63, 4 sign combinations: 1953 * 4 = 7812 blocks, 6 per picture
    let per = 6usize;
    let flavour = Flavour::Sor((k % 2) as u8);
    let mut cfg = gen_cfg(&mut rng, flavour, 16, 16);
    cfg.pei = 0;
    cfg.stuffing_pct = 0;
    let hdr = make_header(&cfg, 0, &mut rng);
    let mag = 1 + rng.below(12) as i32;
    let blocks: [SymBlock; 6] = std::array::from_fn(|b| {
        let idx = k * per + b;
        let (pair, signs) = (idx / 4, idx % 4);
        // unrank the pair
        let (mut p1, mut rem) = (1usize, pair);
        while p1 < 63 && rem >= 63 - p1 {
            rem -= 63 - p1;
            p1 += 1;
        }
        if p1 >= 63 {
            return SymBlock { intradc: Some(100), events: vec![] };
        }
        let p2 = p1 + 1 + rem;
        let (l1, l2) = (if signs & 1 == 0 { mag } else { -mag }, if signs & 2 == 0 { mag } else { -mag });
        let esc = if flavour == Flavour::Sor(1) { Esc::Esc7 } else { Esc::Esc8 };
        SymBlock { intradc: Some(if rng.chance(1, 2) { 100 } else { 255 }), events: vec![Ev { run: (p1 - 1) as u8, level: l1, esc }, Ev { run: (p2 - p1 - 1) as u8, level: l2, esc }] }
    });
    let pic = SymPicture { hdr, w: 16, h: 16, mbs: vec![SymMb::Coded { kind: crate::model::tables::MbKind::Intra, dquant: 1, mvd: [[0; 2]; 4], blocks }], stuffing: vec![] };
    let before = rep.get("pictures_compared");
    judge(rep, &pic, flavour, &cfg, J::obj().set("property", "C02").set("kind", "pairs").set("tier", ctx.tier_name()).set("seed", ctx.seed).set("stage", ctx.stage.clone()).set("k", k), false);
    if rep.get("pictures_compared") > before {
        rep.count("equal_magnitude_pair_pictures");
    }
}

/// Full-range separable blocks: one near-maximal coefficient row (or column) - sign pattern aligned with a
/// basis column, all equal, or random - and one to three weaker rows that bring one line of samples back
/// into 0..255; coded with 11-bit Sorenson escapes (levels up to +-1023) at small quantizers, or
/// saturating at large ones. The first pass of a separable transform sees its largest values here.
pub fn extreme_case(ctx: &Ctx, k: usize, rep: &mut Report) {
    let mut rng = Rng::new(ctx.seed ^ 0xC02E7, k as u64);
    let flavour = Flavour::Sor(1);
    let mut cfg = gen_cfg(&mut rng, flavour, 16, 16);
    cfg.pei = 0;
    cfg.stuffing_pct = 0;
    cfg.quant = *rng.pick(&[1u8, 1, 1, 2, 3, 4, 8, 31]);
    let q = cfg.quant as i32;
    let hdr = make_header(&cfg, 0, &mut rng);
    let zz = crate::model::recon::zigzag();
    let mut t = [[0f64; 8]; 8];
    for x in 0..8 {
        for u in 0..8 {
            let cu = if u == 0 { 0.5f64.sqrt() } else { 1.0 };
            t[x][u] = 0.5 * cu * ((2 * x + 1) as f64 * u as f64 * std::f64::consts::PI / 16.0).cos();
        }
    }
    let mut near_max = 0usize;
    let blocks: [SymBlock; 6] = std::array::from_fn(|_| {
        let x0 = rng.below(8) as usize;
        let mode = rng.below(4);
        let mut h = [0f64; 8];
        for u in 0..8 {
            let mag = if rng.chance(3, 4) { 2047 } else { rng.range(1500, 2047) } as f64;
            let sign = match mode {
                0 => t[x0][u].signum(),
                1 => -t[x0][u].signum(),
                2 => 1.0,
                _ => if rng.chance(1, 2) { 1.0 } else { -1.0 },
            };
            h[u] = mag * sign;
        }
        let transpose = rng.chance(1, 2);
        // the strong line holds the INTRADC position when it is line 0: that one is 8..2032, positive
        let v0 = if rng.chance(1, 2) { 0 } else { rng.below(8) as usize };
        if v0 == 0 {
            h[0] = h[0].abs().min(2032.0);
        }
        let peak: f64 = (0..8).map(|x| (0..8).map(|u| t[x][u] * h[u]).sum::<f64>().abs()).fold(0.0, f64::max);
        let y0 = rng.below(8) as usize;
        let mut a = [0f64; 8];
        a[v0] = if v0 == 0 || rng.chance(1, 2) { 1.0 } else { -1.0 };
        // prediction is 0 in an intra picture: aim at samples 10..245
        let target = rng.range(10, 245) as f64 / peak.max(1.0) * if rng.chance(1, 2) { 1.0 } else { -1.0 };
        let others: Vec<usize> = (0..8).filter(|v| *v != v0 && t[y0][*v].abs() > 0.15).collect();
        let n_other = 1 + rng.below(3) as usize;
        let mut chosen: Vec<usize> = vec![];
        while chosen.len() < n_other.min(others.len()) {
            let v = *rng.pick(&others);
            if !chosen.contains(&v) {
                chosen.push(v);
            }
        }
        let need = target - t[y0][v0] * a[v0];
        let mut weights: Vec<f64> = chosen.iter().map(|_| 0.2 + rng.below(100) as f64 / 100.0).collect();
        let ws: f64 = weights.iter().sum();
        for w in weights.iter_mut() {
            *w /= ws;
        }
        for (v, w) in chosen.iter().zip(weights.iter()) {
            a[*v] = need * w / t[y0][*v];
        }
        let mut c = [[0f64; 8]; 8]; // c[v][u]
        for v in 0..8 {
            for u in 0..8 {
                if transpose {
                    c[u][v] = a[v] * h[u];
                } else {
                    c[v][u] = a[v] * h[u];
                }
            }
        }
        let dc = ((c[0][0] / 8.0).round() as i32).clamp(1, 254);
        let intradc = if dc == 128 { 129 } else { dc } as u8;
        let mut events = vec![];
        let mut idx = 1usize;
        for (i, &(u, v)) in zz.iter().enumerate().skip(1) {
            let want = c[v][u];
            // |coefficient| = q(2|L|+1) - [q even]
            let l = (((want.abs() + if q % 2 == 0 { 1.0 } else { 0.0 }) / q as f64 - 1.0) / 2.0).round() as i32;
            let l = l.clamp(0, 1023);
            if l == 0 {
                continue;
            }
            if q * (2 * l + 1) >= 1900 {
                near_max += 1;
            }
            let level = if want < 0.0 { -l } else { l };
            let esc = if l <= 63 && rng.chance(1, 2) { Esc::Esc7 } else { Esc::Esc11 };
            events.push(Ev { run: (i - idx) as u8, level, esc });
            idx = i + 1;
        }
        SymBlock { intradc: Some(intradc), events }
    });
    let pic = SymPicture { hdr, w: 16, h: 16, mbs: vec![SymMb::Coded { kind: crate::model::tables::MbKind::Intra, dquant: 1, mvd: [[0; 2]; 4], blocks }], stuffing: vec![] };
    let before = rep.get("pictures_compared");
    judge(rep, &pic, flavour, &cfg, J::obj().set("property", "C02").set("kind", "extreme").set("tier", ctx.tier_name()).set("seed", ctx.seed).set("stage", ctx.stage.clone()).set("k", k), false);
    if rep.get("pictures_compared") > before {
        rep.count("full_range_separable_block_pictures");
        rep.add("full_range_near_maximal_coefficients", near_max as u64);
    }
}

pub const PAIRS_N: usize = (1953 * 4 + 5) / 6;

pub fn case(ctx: &Ctx, shard: usize, index: u64, rep: &mut Report) {
    let mut rng = Rng::new(ctx.seed ^ 0xC02, ((shard as u64) << 40) | index);
    // size policy: mostly small; a tail of larger pictures; thorough walks the small box exhaustively
    let box_n = 48u64;
    let (flavour, w, h) = if ctx.tier == Tier::Thorough && ctx.is_main() && shard < 8 && index < box_n * box_n {
        rep.count("exhaustive_box_sizes");
        let f = if shard % 2 == 0 { Flavour::Sor(0) } else { Flavour::Sor(1) };
        (f, 1 + (index % box_n) as usize, 1 + (index / box_n) as usize)
    } else {
        let max = match rng.below(100) {
            0..=84 => 64,
            85..=97 => 200,
            _ => {
                if ctx.tier == Tier::Thorough {
                    720
                } else {
                    400
                }
            }
        };
        let large = ctx.tier == Tier::Thorough && rng.chance(1, 20);
        gen_flavour_and_size(&mut rng, max, large)
    };
    let cfg = gen_cfg(&mut rng, flavour, w, h);
    let mut pic = gen_intra(&mut rng, &cfg);
    // standard PLUSPTYPE intra pictures: header modes that do not concern intra decoding (custom picture
    // clock with its extended temporal reference, unrestricted-vector indication) may be switched on -
    // the macroblock data must still be found where the header ends
    if let Hdr::Std(hd) = &mut pic.hdr {
        if let Some(pl) = hd.plus.as_mut() {
            if rng.chance(1, 3) {
                pl.custom_pcf = rng.chance(2, 3);
                pl.cpcfc = rng.byte();
                pl.etr = rng.below(4) as u8;
                pl.umv = rng.chance(2, 3);
                pl.uui_unlimited = rng.chance(1, 2);
                rep.count("std_intra_pictures_with_header_modes");
            }
        }
    }
    let coords = crate::mon::coords("C02", ctx, shard, index);
    // a quarter of the cases: the decoder has already decoded other pictures (of this or another size,
    // intra and predicted) before the picture under test - what an intra picture decodes to must not
    // depend on what the instance did before; and the source may deliver a few bytes per read call
    // Sorenson decoders are sometimes constructed with the scalability option as well (it concerns standard headers only)
    let mut dec = Dec::new(flavour.sorenson(), flavour.sorenson() && rng.chance(1, 4));
    dec.chunk = *rng.pick(&[usize::MAX, usize::MAX, usize::MAX, 1, 2, 5, 64, 1000]);
    if dec.chunk != usize::MAX {
        rep.count("chunked_source_cases");
    }
    // ... and may fail one read call with a transient error (the failed decode call is then repeated)
    if rng.chance(1, 6) {
        dec.stall = Some((rng.below(1001) as usize, rng.below(3) as u8));
    }
    // ... or arrive late: the first few bytes of each picture now, the rest after the call failed for lack of data
    if dec.stall.is_none() && rng.chance(1, 8) {
        dec.trickle = Some(1 + rng.below(6) as usize);
    }
    if rng.chance(1, 4) && w * h <= 200 * 200 {
        let n = 1 + rng.below(3);
        for _ in 0..n {
            let same = rng.chance(1, 2);
            let (w2, h2) = if same || flavour == Flavour::StdFixed {
                (w, h)
            } else if flavour.sorenson() {
                (1 + rng.below(80) as usize, 1 + rng.below(80) as usize)
            } else {
                (4 * (1 + rng.below(20) as usize), 4 * (1 + rng.below(20) as usize))
            };
            let mut c2 = gen_cfg(&mut rng, flavour, w2, h2);
            c2.tr = cfg.tr.wrapping_sub(1 + rng.below(3) as u8);
            let prev = if rng.chance(1, 2) {
                gen_intra(&mut rng, &c2)
            } else {
                let ptype = if flavour.sorenson() && rng.chance(1, 3) { 2 } else { 0 };
                let truncate = if rng.chance(1, 4) { Some(rng.below(4) as usize) } else { None };
                gen_inter(&mut rng, &c2, &InterCfg { ptype, big_vectors_pct: 30, residual_pct: 60, truncate, allow_q: true })
            };
            match dec.decode(&prev.encode()) {
                Outcome::Ok => rep.count("history_pictures_before_the_intra_picture"),
                Outcome::Err(_) => rep.count("history_rejected_inputs_before_the_intra_picture"),
                Outcome::Panic { msg, loc } => {
                    rep.violation(format!("panic@{}", loc), format!("history picture {}x{} before the picture under test panicked: {}", w2, h2, msg), coords.clone());
                    return;
                }
            }
        }
        rep.count("cases_with_history");
    }
    judge_on(rep, dec, &pic, flavour, &cfg, coords, shard == 0 && index < 3);
}

pub fn judge(rep: &mut Report, pic: &SymPicture, flavour: Flavour, cfg: &PicCfg, coords0: J, sample: bool) {
    judge_on(rep, Dec::new(flavour.sorenson(), false), pic, flavour, cfg, coords0, sample)
}

/// Encode, decode with the real decoder, reconstruct with the model, compare, count coverage.
pub fn judge_on(rep: &mut Report, mut dec: Dec, pic: &SymPicture, flavour: Flavour, cfg: &PicCfg, coords0: J, sample: bool) {
    let (w, h) = (pic.w, pic.h);
    let bytes = pic.encode();
    rep.evaluations += 1;
    let coords = || coords0.clone().set("bytes", if bytes.len() <= 4096 { hex(&bytes) } else { format!("{} bytes", bytes.len()) }).set("sorenson", flavour.sorenson());
    let rec = match reconstruct(pic, None) {
        Ok(r) => r,
        Err(e) => {
            rep.inconclusive.push(format!("generator produced an invalid picture: {}", e));
            return;
        }
    };
    let out = dec.decode(&bytes);
    rep.add("calls_repeated_after_transient_source_error", dec.stalls_retried as u64);
    rep.add("calls_repeated_after_late_delivery", dec.trickles_retried as u64);
    rep.count(&format!("flavour={}", flavour.name()));
    match out {
        Outcome::Panic { msg, loc } => {
            rep.violation(format!("panic@{}", loc), format!("{} {}x{} q={}: panic '{}' at {}", flavour.name(), w, h, cfg.quant, msg, loc), coords());
            return;
        }
        Outcome::Err(k) => {
            rep.violation(format!("error/{}/{}", flavour.name(), k), format!("valid {} intra picture {}x{} rejected with {}", flavour.name(), w, h, k), coords());
            return;
        }
        Outcome::Ok => {}
    }
    let got = match dec.planes() {
        Some(p) => p,
        None => {
            rep.violation("no-picture", "decode returned Ok but no picture is reported", coords());
            return;
        }
    };
    if got.w != w || got.h != h || dec.chroma_row() != Some((w + 1) / 2) {
        rep.violation(format!("size/{}", flavour.name()), format!("signalled {}x{} but picture reports {}x{} chroma row {:?}", w, h, got.w, got.h, dec.chroma_row()), coords());
        return;
    }
    let (mis, tol) = compare(&rec, &got.y, &got.cb, &got.cr);
    rep.add("samples_compared", (got.y.len() + 2 * got.cb.len()) as u64);
    rep.add("samples_inside_tolerance_window", tol);
    rep.max("max_tau", rec.max_tau);
    if let Some(m) = mis {
        let plane = m.split_whitespace().nth(1).unwrap_or("?").to_string();
        rep.violation(format!("mismatch/{}/{}", flavour.name(), plane), format!("{} {}x{} q={}: {}", flavour.name(), w, h, cfg.quant, m), coords());
        return;
    }
    rep.count("pictures_compared");
    // coverage actually observed
    rep.count(&format!("wmod16={}", w % 16));
    rep.count(&format!("hmod16={}", h % 16));
    rep.count(&format!("pquant={}", cfg.quant));
    if cfg.pei > 0 {
        rep.count("with_pei");
    }
    let mut nontrivial = false;
    let mut q = cfg.quant;
    for (i, mb) in pic.mbs.iter().enumerate() {
        if pic.stuffing.get(i).copied().unwrap_or(0) > 0 {
            rep.count("mb_with_stuffing");
        }
        if let SymMb::Coded { kind, dquant, blocks, .. } = mb {
            rep.count(&format!("kind={}", kind.name()));
            if kind.has_q() {
                let nq = (q as i32 + *dquant as i32).clamp(1, 31) as u8;
                if (q as i32 + *dquant as i32) != nq as i32 {
                    rep.count("dquant_clamped");
                }
                q = nq;
            }
            for b in blocks {
                rep.count(&format!("shape={}", block_shape_observed(b)));
                for e in &b.events {
                    nontrivial = true;
                    rep.count(&format!("esc={:?}", e.esc));
                }
            }
        }
    }
    if nontrivial {
        rep.distinct.insert(fnv64(&bytes));
    }
    if sample {
        rep.sample(8, || describe(pic, flavour, &bytes));
    }
}
