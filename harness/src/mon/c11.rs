//! C11 - dequantisation is exact and saturating over the whole quantiser x level domain.
//! Three observation stages: A parser (bits -> events), B dequantiser (hooked
//! `inverse_rle`, exact coefficients), C end to end through decoded samples.

use super::pcheck::*;
use crate::gen::*;
use crate::json::J;
use crate::model::bits::BitWriter;
use crate::model::header::*;
use crate::model::recon::{dequant, intradc_level, next_quant, reconstruct, zigzag, compare};
use crate::model::syntax::*;
use crate::model::tables::*;
use crate::report::Report;
use crate::sut::{self, Dec, Outcome};
use crate::util::{catch, fnv64, par_shards, Rng};
use crate::{Ctx, Tier};
use h263_rs::parser::{decode_block, decode_picture, H263Reader};
use h263_rs::verif::inverse_rle;
use h263_rs::verif::types::{Block, DecodedDctBlock, IntraDc, MacroblockType, Picture, TCoefficient};
use h263_rs::PictureOption;

pub fn rule() -> String {
    "cases = A: every codable (last, run, level, form) event and every INTRADC code parsed by the real block parser; B: quantiser 1..31 x level -1023..1023 x 64 scan positions through the real dequantiser (with and without INTRADC), exact coefficient equality; C: 16x16 pictures carrying one coefficient per block (intra over INTRADC, inter over a flat reference) and all 31 x 4 DQUANT updates, compared sample-wise with the ideal transform of the specified coefficient; distinct by (stage, parameters), counted by the enumeration".into()
}

fn parse_header(sorenson: bool, version: u8) -> Picture {
    let mut w = BitWriter::new();
    if sorenson {
        SorHeader { version, tr: 0, size: SorSize::Custom8(16, 16), ptype: 0, deblock: false, quant: 5, pei: vec![] }.encode(&mut w);
    } else {
        StdHeader::baseline(0, 2, false, 5).encode(&mut w, false, &Inherited::default());
    }
    w.put(0, 32);
    let mut rd = H263Reader::from_source(&w.bytes[..]);
    decode_picture(&mut rd, sut::options(sorenson, false), None).expect("header").expect("picture")
}

fn stage_a(rep: &mut Report) {
    let tag = |what: String| J::obj().set("property", "C11").set("kind", "stageA").set("what", what);
    for (sorenson, version, forms) in [(false, 0u8, vec![Esc::Esc8]), (true, 0, vec![Esc::Esc8]), (true, 1, vec![Esc::Esc7, Esc::Esc11])] {
        let pic = parse_header(sorenson, version);
        let fl = if !sorenson { "std" } else if version == 0 { "sor-v0" } else { "sor-v1" };
        // escape forms: every level of the form, a few runs, both LAST values
        for form in forms {
            let max = match form {
                Esc::Esc7 => 63,
                Esc::Esc8 => 127,
                _ => 1023,
            };
            for mag in 1..=max {
                for sign in [1, -1] {
                    for (run, last) in [(0u8, true), (5, false), (63, true)] {
                        let level = sign * mag;
                        let mut w = BitWriter::new();
                        encode_event(&mut w, &Ev { run, level, esc: form }, last);
                        if !last {
                            encode_event(&mut w, &Ev { run: 0, level: 1, esc: Esc::Short }, true);
                        }
                        w.put(0xABCD, 16);
                        let r = catch(|| {
                            let mut rd = H263Reader::from_source(&w.bytes[..]);
                            decode_block(&mut rd, sut::options(sorenson, false), &pic, PictureOption::empty(), MacroblockType::Inter, true).map(|b| (b.tcoef.iter().map(|t| (t.is_short, t.run, t.level)).collect::<Vec<_>>(), rd.verif_position().0))
                        });
                        rep.evaluations += 1;
                        let mut want = vec![(false, run, level as i16)];
                        if !last {
                            want.push((true, 0, 1));
                        }
                        match r {
                            Ok(Ok((got, bits))) if got == want && bits == w.nbits - 16 => {
                                rep.count(&format!("A:{}:{:?}", fl, form));
                                rep.distinct_enumerated += 1;
                            }
                            Ok(other) => rep.violation(format!("A/escape/{}/{:?}", fl, form), format!("{} {:?} run={} level={} last={}: parser gave {:?}", fl, form, run, level, last, other.map_err(|e| format!("{:?}", e))), tag(format!("{} {:?} {} {}", fl, form, run, level))),
                            Err(p) => rep.violation(format!("panic@{}", p.loc), format!("block parser panicked: {}", p.msg), tag("panic".into())),
                        }
                    }
                }
            }
        }
        // short forms: all 102 table events x sign
        for e in TCOEF.iter() {
            for sign in [1i32, -1] {
                let level = sign * e.2 as i32;
                let mut w = BitWriter::new();
                let last = e.0 == 1;
                encode_event(&mut w, &Ev { run: e.1, level, esc: Esc::Short }, last);
                if !last {
                    encode_event(&mut w, &Ev { run: 0, level: 1, esc: Esc::Short }, true);
                }
                w.put(0xABCD, 16);
                let r = catch(|| {
                    let mut rd = H263Reader::from_source(&w.bytes[..]);
                    decode_block(&mut rd, sut::options(sorenson, false), &pic, PictureOption::empty(), MacroblockType::Inter, true).map(|b| (b.tcoef.iter().map(|t| (t.is_short, t.run, t.level)).collect::<Vec<_>>(), rd.verif_position().0))
                });
                rep.evaluations += 1;
                let mut want = vec![(true, e.1, level as i16)];
                if !last {
                    want.push((true, 0, 1));
                }
                match r {
                    Ok(Ok((got, bits))) if got == want && bits == w.nbits - 16 => {
                        rep.count(&format!("A:{}:Short", fl));
                        rep.distinct_enumerated += 1;
                    }
                    Ok(other) => rep.violation(format!("A/short/{}", fl), format!("{} short event {:?} sign {}: parser gave {:?}", fl, e, sign, other.map_err(|e| format!("{:?}", e))), tag(format!("{} short {:?}", fl, e))),
                    Err(p) => rep.violation(format!("panic@{}", p.loc), format!("block parser panicked: {}", p.msg), tag("panic".into())),
                }
            }
        }
        // blocks that code every scan position: 64 events in an inter block, 63 after INTRADC
        for intra in [false, true] {
            for variant in 0..4 {
                let n = if intra { 63 } else { 64 };
                let esc = if !sorenson || version == 0 { Esc::Esc8 } else if variant % 2 == 0 { Esc::Esc7 } else { Esc::Esc11 };
                let mut w = BitWriter::new();
                if intra {
                    w.put(77, 8);
                }
                let mut want = vec![];
                for i in 0..n {
                    let level = if i + 1 == n && esc == Esc::Esc11 { -1023 } else { ((i as i32 * 7 + variant) % 11) - 5 };
                    let level = if level == 0 { 3 } else { level };
                    let short = variant >= 2 && tcoef_short(i + 1 == n, 0, level.unsigned_abs()).is_some();
                    encode_event(&mut w, &Ev { run: 0, level, esc: if short { Esc::Short } else { esc } }, i + 1 == n);
                    want.push((short, 0u8, level as i16));
                }
                w.put(0xABCD, 16);
                let r = catch(|| {
                    let mut rd = H263Reader::from_source(&w.bytes[..]);
                    decode_block(&mut rd, sut::options(sorenson, false), &pic, PictureOption::empty(), if intra { MacroblockType::Intra } else { MacroblockType::Inter }, true).map(|b| (b.tcoef.iter().map(|t| (t.is_short, t.run, t.level)).collect::<Vec<_>>(), rd.verif_position().0))
                });
                rep.evaluations += 1;
                match r {
                    Ok(Ok((got, bits))) if got == want && bits == w.nbits - 16 => {
                        rep.count("A:full_blocks");
                        rep.distinct_enumerated += 1;
                    }
                    Ok(other) => rep.violation(format!("A/full-block/{}", fl), format!("{} block coding all {} scan positions (intra={}): parser gave {:?}", fl, n, intra, other.map(|(g, b)| (g.len(), b)).map_err(|e| format!("{:?}", e))), tag(format!("{} full block", fl))),
                    Err(p) => rep.violation(format!("panic@{}", p.loc), format!("block parser panicked: {}", p.msg), tag("panic".into())),
                }
            }
        }
        // INTRADC: all 256 codes
        for code in 0..=255u32 {
            let mut w = BitWriter::new();
            w.put(code, 8);
            w.put(0xABCD, 16);
            let r = catch(|| {
                let mut rd = H263Reader::from_source(&w.bytes[..]);
                decode_block(&mut rd, sut::options(sorenson, false), &pic, PictureOption::empty(), MacroblockType::Intra, false).map(|b| b.intradc.map(|d| d.into_level()))
            });
            rep.evaluations += 1;
            let want = intradc_level(code as u8);
            match (r, want) {
                (Ok(Ok(Some(l))), Some(wl)) if l as i32 == wl => {
                    rep.count("A:intradc_ok");
                    rep.distinct_enumerated += 1;
                }
                (Ok(Err(_)), None) => {
                    rep.count("A:intradc_rejected");
                    rep.distinct_enumerated += 1;
                }
                (Err(p), _) => rep.violation(format!("panic@{}", p.loc), format!("INTRADC {} panicked: {}", code, p.msg), tag("panic".into())),
                (Ok(other), _) => rep.violation(format!("A/intradc/{}", if want.is_none() { "accepted-invalid" } else { "level" }), format!("INTRADC code {} ({}): parser gave {:?}, Table 15 says {:?}", code, fl, other.map_err(|e| format!("{:?}", e)), want), tag(format!("intradc {}", code))),
            }
        }
    }
}

fn matrix(b: &DecodedDctBlock) -> [[f32; 8]; 8] {
    let mut m = [[0f32; 8]; 8];
    match b {
        DecodedDctBlock::Zero => {}
        DecodedDctBlock::Dc(v) => m[0][0] = *v,
        DecodedDctBlock::Horiz(r) => m[0] = *r,
        DecodedDctBlock::Vert(c) => {
            for v in 0..8 {
                m[v][0] = c[v];
            }
        }
        DecodedDctBlock::Full(f) => m = *f,
    }
    m
}

fn stage_b(q: u8, rep: &mut Report) {
    let zz = zigzag();
    let tag = |what: String| J::obj().set("property", "C11").set("kind", "stageB").set("q", q as u64).set("what", what);
    for with_dc in [false, true] {
        let first = if with_dc { 1 } else { 0 };
        for pos in first..64usize {
            for level in -1023i32..=1023 {
                if level == 0 {
                    continue;
                }
                let block = Block { intradc: if with_dc { IntraDc::from_u8(77) } else { None }, tcoef: vec![TCoefficient { is_short: false, run: (pos - first) as u8, level: level as i16 }] };
                let r = catch(|| {
                    let mut levels = vec![DecodedDctBlock::Zero; 4];
                    inverse_rle(&block, &mut levels, (8, 8), 2, q);
                    (matrix(&levels[3]), levels[0..3].iter().all(|b| matches!(b, DecodedDctBlock::Zero)))
                });
                rep.evaluations += 1;
                match r {
                    Err(p) => {
                        rep.violation(format!("panic@{}", p.loc), format!("inverse_rle panicked for q={} level={} pos={}: {}", q, level, pos, p.msg), tag(format!("level {} pos {}", level, pos)));
                        return;
                    }
                    Ok((m, others_untouched)) => {
                        let want = dequant(q as i32, level) as f32;
                        let (u, v) = zz[pos];
                        let mut ok = others_untouched && m[v][u] == want;
                        for vv in 0..8 {
                            for uu in 0..8 {
                                if (uu, vv) != (u, v) {
                                    let exp = if with_dc && (uu, vv) == (0, 0) { 616.0 } else { 0.0 };
                                    if m[vv][uu] != exp {
                                        ok = false;
                                    }
                                }
                            }
                        }
                        if ok {
                            rep.count("B:coefficients_exact");
                            rep.distinct_enumerated += 1;
                            if want == 2047.0 || want == -2048.0 {
                                rep.count("B:saturated");
                            }
                        } else {
                            rep.violation(format!("B/coefficient/{}", if (q as i32 * (2 * level.abs() + 1)) > 2047 { "saturating" } else { "plain" }), format!("q={} level={} scan position {} (u={},v={}) with_dc={}: got {} expected {} (matrix {:?})", q, level, pos, u, v, with_dc, m[v][u], want, m), tag(format!("level {} pos {}", level, pos)));
                            return;
                        }
                    }
                }
            }
        }
    }
}

/// Stage B': random blocks with 2-6 coefficients (and optionally INTRADC): every coefficient exact.
fn stage_b_multi(ctx: &Ctx, q: u8, rep: &mut Report) {
    let zz = zigzag();
    let mut rng = Rng::new(ctx.seed ^ 0xC11B, q as u64);
    let n = ctx.n(20_000, 3_000_000);
    for it in 0..n {
        let with_dc = rng.chance(1, 2);
        let first = if with_dc { 1 } else { 0 };
        let k = 2 + rng.below(5) as usize;
        let mut pos: Vec<usize> = vec![];
        while pos.len() < k {
            let p = first + rng.below((64 - first) as u64) as usize;
            if !pos.contains(&p) {
                pos.push(p);
            }
        }
        pos.sort();
        let dc_code = loop {
            let c = 1 + rng.below(255) as u8;
            if c != 128 {
                break c;
            }
        };
        let mut want = [[0f32; 8]; 8];
        if with_dc {
            want[0][0] = intradc_level(dc_code).unwrap() as f32;
        }
        let mut tcoef = vec![];
        let mut idx = first;
        for p in &pos {
            let mag = match rng.below(4) {
                0 => 1 + rng.below(1023) as i32,
                1 => *rng.pick(&[1i32, 33, 34, 127, 128, 528, 529, 1023]),
                _ => 1 + rng.below(40) as i32,
            };
            let level = if rng.chance(1, 2) { mag } else { -mag };
            tcoef.push(TCoefficient { is_short: false, run: (*p - idx) as u8, level: level as i16 });
            let (u, v) = zz[*p];
            want[v][u] = dequant(q as i32, level) as f32;
            idx = *p + 1;
        }
        let block = Block { intradc: if with_dc { IntraDc::from_u8(dc_code) } else { None }, tcoef };
        let r = catch(|| {
            let mut levels = vec![DecodedDctBlock::Zero; 2];
            inverse_rle(&block, &mut levels, (8, 0), 2, q);
            (matrix(&levels[1]), matches!(levels[0], DecodedDctBlock::Zero))
        });
        rep.evaluations += 1;
        match r {
            Err(p) => {
                rep.violation(format!("panic@{}", p.loc), format!("inverse_rle panicked: {}", p.msg), J::obj().set("property", "C11").set("kind", "stageBmulti").set("q", q as u64));
                return;
            }
            Ok((m, untouched)) if m == want && untouched => {
                rep.count("B:multi_coefficient_blocks_exact");
                rep.distinct.insert(fnv64(&pos.iter().map(|p| *p as u8).chain([q, it as u8, (it >> 8) as u8, (it >> 16) as u8]).collect::<Vec<u8>>()));
            }
            Ok((m, _)) => {
                rep.violation("B/multi-coefficient", format!("q={} positions {:?} with_dc={}: got {:?} expected {:?}", q, pos, with_dc, m, want), J::obj().set("property", "C11").set("kind", "stageBmulti").set("q", q as u64));
                return;
            }
        }
    }
}

fn one_coeff_picture(flavour: Flavour, q: u8, intra: bool, pos: usize, level: i32, esc: Esc, dc: u8, rng: &mut Rng) -> SymPicture {
    let cfg = PicCfg { flavour, w: 16, h: 16, quant: q, tr: 1, wide_levels: false, stuffing_pct: 0, pei: 0, deblock_flag: false, prefer_fixed_size_code: false, force16: false };
    let hdr = make_header(&cfg, if intra { 0 } else { 1 }, rng);
    let first = if intra { 1 } else { 0 };
    let blocks: [SymBlock; 6] = std::array::from_fn(|_| SymBlock { intradc: if intra { Some(dc) } else { None }, events: vec![Ev { run: (pos - first) as u8, level, esc }] });
    SymPicture { hdr, w: 16, h: 16, mbs: vec![SymMb::Coded { kind: if intra { MbKind::Intra } else { MbKind::Inter }, dquant: 1, mvd: [[0; 2]; 4], blocks }], stuffing: vec![] }
}

fn flat_reference(flavour: Flavour, rng: &mut Rng) -> SymPicture {
    let cfg = PicCfg { flavour, w: 16, h: 16, quant: 8, tr: 0, wide_levels: false, stuffing_pct: 0, pei: 0, deblock_flag: false, prefer_fixed_size_code: false, force16: false };
    let hdr = make_header(&cfg, 0, rng);
    let blocks: [SymBlock; 6] = std::array::from_fn(|_| SymBlock { intradc: Some(127), events: vec![] });
    SymPicture { hdr, w: 16, h: 16, mbs: vec![SymMb::Coded { kind: MbKind::Intra, dquant: 1, mvd: [[0; 2]; 4], blocks }], stuffing: vec![] }
}

fn stage_c(ctx: &Ctx, q: u8, rep: &mut Report) {
    let mut rng = Rng::new(ctx.seed ^ 0xC11, q as u64);
    let thorough = ctx.tier == Tier::Thorough;
    let positions: Vec<usize> = if thorough { vec![0, 1, 2, 5, 9, 20, 35, 63] } else { vec![0, 1, 8, 63] };
    let tag = |what: String| J::obj().set("property", "C11").set("kind", "stageC").set("q", q as u64).set("what", what);
    for (flavour, forms) in [(Flavour::Sor(1), vec![Esc::Short, Esc::Esc7, Esc::Esc11]), (Flavour::Sor(0), vec![Esc::Short, Esc::Esc8]), (Flavour::StdFixed, vec![Esc::Esc8])] {
        let refpic = flat_reference(if flavour == Flavour::StdFixed { Flavour::StdPlus } else { flavour }, &mut rng);
        let ref_bytes = refpic.encode();
        for form in forms {
            let max = match form {
                Esc::Short => 12,
                Esc::Esc7 => 63,
                Esc::Esc8 => 127,
                Esc::Esc11 => 1023,
            };
            let mags: Vec<i32> = if thorough || max <= 127 { (1..=max).collect() } else { (1..=max).filter(|m| *m <= 40 || m % 7 == 0 || *m >= 1000 || (520..540).contains(m)).collect() };
            for mag in mags {
                for sign in [1, -1] {
                    let level = sign * mag;
                    for &pos in &positions {
                        for intra in [true, false] {
                            if intra && pos == 0 {
                                continue;
                            }
                            let first = if intra { 1 } else { 0 };
                            let run = (pos - first) as u8;
                            if form == Esc::Short && tcoef_short(true, run, mag as u32).is_none() {
                                continue;
                            }
                            let fl = if flavour == Flavour::StdFixed { Flavour::StdPlus } else { flavour };
                            let mut pic = one_coeff_picture(fl, q, intra, pos, level, form, 100, &mut rng);
                            // standard mode: half of the predicted pictures leave OPPTYPE out (UFEP = 000); PQUANT sits elsewhere then
                            if !intra && (mag + pos as i32) % 2 == 0 && drop_format(&mut pic) {
                                rep.count("C:predicted_pictures_without_opptype");
                            }
                            let bytes = pic.encode();
                            rep.evaluations += 1;
                            let mut dec = Dec::new(fl.sorenson(), false);
                            let res = if intra {
                                match reconstruct(&pic, None) {
                                    Err(e) => Err(Fail { sig: "generator-invalid".into(), detail: e }),
                                    Ok(rec) => match dec.decode(&bytes) {
                                        Outcome::Ok => {
                                            let g = dec.planes().unwrap();
                                            match compare(&rec, &g.y, &g.cb, &g.cr).0 {
                                                None => Ok(()),
                                                Some(m) => Err(Fail { sig: "C/intra/mismatch".into(), detail: m }),
                                            }
                                        }
                                        Outcome::Panic { msg, loc } => Err(Fail { sig: format!("panic@{}", loc), detail: msg }),
                                        Outcome::Err(k) => Err(Fail { sig: format!("C/intra/error/{}", k), detail: k }),
                                    },
                                }
                            } else {
                                match dec.decode(&ref_bytes) {
                                    Outcome::Ok => {
                                        let refp = dec.planes().unwrap();
                                        check_inter(&mut dec, &refp, &pic, &bytes).map(|_| ()).map_err(|f| Fail { sig: format!("C/inter/{}", f.sig), detail: f.detail })
                                    }
                                    o => Err(Fail { sig: "reference".into(), detail: o.short() }),
                                }
                            };
                            match res {
                                Ok(()) => {
                                    rep.count(&format!("C:{}:{:?}", if intra { "intra" } else { "inter" }, form));
                                    rep.distinct.insert(fnv64(&bytes));
                                }
                                Err(f) if f.sig == "generator-invalid" || f.sig == "reference" => rep.count(&format!("skipped:{}", f.sig)),
                                Err(f) => rep.violation(f.sig.clone(), format!("q={} level={} pos={} {:?} {} intra={}: {}", q, level, pos, form, fl.name(), intra, f.detail), tag(format!("level {} pos {} {:?}", level, pos, form))),
                            }
                        }
                    }
                }
            }
        }
    }
    // DQUANT: from PQUANT q, all four updates, observed through a level-5 coefficient at scan position 0
    for d in [-2i8, -1, 1, 2] {
        for flavour in [Flavour::Sor(0), Flavour::StdPlus] {
            let refpic = flat_reference(flavour, &mut rng);
            let cfg = PicCfg { flavour, w: 16, h: 16, quant: q, tr: 1, wide_levels: false, stuffing_pct: 0, pei: 0, deblock_flag: false, prefer_fixed_size_code: false, force16: false };
            let hdr = make_header(&cfg, 1, &mut rng);
            let blocks: [SymBlock; 6] = std::array::from_fn(|_| SymBlock { intradc: None, events: vec![Ev { run: 0, level: 5, esc: Esc::Esc8 }] });
            let pic = SymPicture { hdr, w: 16, h: 16, mbs: vec![SymMb::Coded { kind: MbKind::InterQ, dquant: d, mvd: [[0; 2]; 4], blocks }], stuffing: vec![] };
            let bytes = pic.encode();
            rep.evaluations += 1;
            let mut dec = Dec::new(flavour.sorenson(), false);
            if dec.decode(&refpic.encode()) != Outcome::Ok {
                rep.count("skipped:reference");
                continue;
            }
            let refp = dec.planes().unwrap();
            // variant: the DQUANT is carried by a macroblock without any coefficients and observed through
            // the next macroblock (32x16 picture)
            {
                let cfg2 = PicCfg { w: 32, ..cfg.clone() };
                let ref2 = {
                    let c = PicCfg { w: 32, ..PicCfg { flavour, w: 16, h: 16, quant: 8, tr: 0, wide_levels: false, stuffing_pct: 0, pei: 0, deblock_flag: false, prefer_fixed_size_code: false, force16: false } };
                    let hdr = make_header(&c, 0, &mut rng);
                    let mk = || SymMb::Coded { kind: MbKind::Intra, dquant: 1, mvd: [[0; 2]; 4], blocks: std::array::from_fn(|_| SymBlock { intradc: Some(127), events: vec![] }) };
                    SymPicture { hdr, w: 32, h: 16, mbs: vec![mk(), mk()], stuffing: vec![] }
                };
                let hdr2 = make_header(&cfg2, 1, &mut rng);
                let carrier = SymMb::Coded { kind: if rng.chance(1, 2) { MbKind::InterQ } else { MbKind::Inter4VQ }, dquant: d, mvd: [[0; 2]; 4], blocks: std::array::from_fn(|_| SymBlock::default()) };
                let observer = SymMb::Coded { kind: MbKind::Inter, dquant: 1, mvd: [[0; 2]; 4], blocks: std::array::from_fn(|_| SymBlock { intradc: None, events: vec![Ev { run: 0, level: 5, esc: Esc::Esc8 }] }) };
                let pic2 = SymPicture { hdr: hdr2, w: 32, h: 16, mbs: vec![carrier, observer], stuffing: vec![] };
                let mut dec2 = Dec::new(flavour.sorenson(), false);
                rep.evaluations += 1;
                if dec2.decode(&ref2.encode()) == Outcome::Ok {
                    let refp2 = dec2.planes().unwrap();
                    let b2 = pic2.encode();
                    match check_inter(&mut dec2, &refp2, &pic2, &b2) {
                        Ok(_) => {
                            rep.count("C:dquant_on_empty_macroblock");
                            rep.distinct.insert(fnv64(&b2));
                        }
                        Err(f) => rep.violation(format!("C/dquant-empty-carrier/{}", f.sig), format!("PQUANT {} DQUANT {} carried by a macroblock without coefficients ({}): {}", q, d, flavour.name(), f.detail), tag(format!("dquant-empty {}", d))),
                    }
                }
            }
            match check_inter(&mut dec, &refp, &pic, &bytes) {
                Ok(_) => {
                    rep.count("C:dquant_updates");
                    if next_quant(q, d) as i32 != q as i32 + d as i32 {
                        rep.count("C:dquant_clamped");
                    }
                    rep.distinct.insert(fnv64(&bytes));
                }
                Err(f) => rep.violation(format!("C/dquant/{}", f.sig), format!("PQUANT {} DQUANT {} ({}): {}", q, d, flavour.name(), f.detail), tag(format!("dquant {}", d))),
            }
        }
    }
}

/// DQUANT chains: n macroblocks in a row, each updating the quantiser and carrying a level-5
/// coefficient; all chains of length 2 and 3 from PQUANT q, plus random longer ones. What the
/// k-th macroblock is dequantised with depends on every clamp on the way.
fn stage_c_chains(ctx: &Ctx, q: u8, rep: &mut Report) {
    let mut rng = Rng::new(ctx.seed ^ 0xC11C, q as u64);
    let ds = [-2i8, -1, 1, 2];
    let mut chains: Vec<Vec<i8>> = vec![];
    for a in ds {
        for b in ds {
            chains.push(vec![a, b]);
            for c in ds {
                chains.push(vec![a, b, c]);
            }
        }
    }
    for _ in 0..ctx.n(20, 400) {
        let n = 4 + rng.below(6) as usize;
        chains.push((0..n).map(|_| *rng.pick(&ds)).collect());
    }
    for (ci, ch) in chains.iter().enumerate() {
        let flavour = [Flavour::Sor(0), Flavour::Sor(1), Flavour::StdPlus][ci % 3];
        let intra = ci % 2 == 1;
        let n = ch.len();
        // the macroblocks sit side by side in one row, or one below the other (one macroblock row each: in
        // standard streams every row is a group of blocks, and the quantiser carries over from group to group)
        let column = ci % 4 >= 2;
        let (pw, ph) = if column { (16, 16 * n) } else { (16 * n, 16) };
        if column {
            rep.count("C:dquant_chains_down_a_column");
        }
        let mk_cfg = |quant: u8, tr: u8| PicCfg { flavour, w: pw, h: ph, quant, tr, wide_levels: false, stuffing_pct: 0, pei: 0, deblock_flag: false, prefer_fixed_size_code: false, force16: false };
        let refpic = {
            let hdr = make_header(&mk_cfg(8, 0), 0, &mut rng);
            let mbs = (0..n).map(|_| SymMb::Coded { kind: MbKind::Intra, dquant: 1, mvd: [[0; 2]; 4], blocks: std::array::from_fn(|_| SymBlock { intradc: Some(127), events: vec![] }) }).collect();
            SymPicture { hdr, w: pw, h: ph, mbs, stuffing: vec![] }
        };
        let hdr = make_header(&mk_cfg(q, 1), if intra { 0 } else { 1 }, &mut rng);
        let mbs: Vec<SymMb> = ch
            .iter()
            .map(|d| SymMb::Coded {
                kind: if intra { MbKind::IntraQ } else { MbKind::InterQ },
                dquant: *d,
                mvd: [[0; 2]; 4],
                blocks: std::array::from_fn(|_| SymBlock { intradc: if intra { Some(100) } else { None }, events: vec![Ev { run: 0, level: 2, esc: Esc::Short }] }),
            })
            .collect();
        // every third chain has MCBPC stuffing between its macroblocks (stuffing is not a macroblock: the
        // quantiser in force carries over it)
        let stuffing: Vec<u8> = if ci % 3 == 2 { (0..n).map(|i| if i > 0 { 1 + (rng.below(2) as u8) } else { 0 }).collect() } else { vec![] };
        if !stuffing.is_empty() {
            rep.count("C:dquant_chains_with_stuffing");
        }
        let pic = SymPicture { hdr, w: pw, h: ph, mbs, stuffing };
        let bytes = pic.encode();
        rep.evaluations += 1;
        let mut dec = Dec::new(flavour.sorenson(), false);
        if dec.decode(&refpic.encode()) != Outcome::Ok {
            rep.count("skipped:reference");
            continue;
        }
        let refp = dec.planes().unwrap();
        let tag = J::obj().set("property", "C11").set("kind", "stageCchains").set("q", q as u64).set("what", format!("chain {:?}", ch));
        let res = if intra {
            match reconstruct(&pic, None) {
                Err(e) => Err(Fail { sig: "generator-invalid".into(), detail: e }),
                Ok(rec) => match dec.decode(&bytes) {
                    Outcome::Ok => {
                        let g = dec.planes().unwrap();
                        match compare(&rec, &g.y, &g.cb, &g.cr).0 {
                            None => Ok(()),
                            Some(m) => Err(Fail { sig: "mismatch".into(), detail: m }),
                        }
                    }
                    Outcome::Panic { msg, loc } => Err(Fail { sig: format!("panic@{}", loc), detail: msg }),
                    Outcome::Err(k) => Err(Fail { sig: format!("error/{}", k), detail: k }),
                },
            }
        } else {
            check_inter(&mut dec, &refp, &pic, &bytes).map(|_| ())
        };
        match res {
            Ok(()) => {
                rep.count("C:dquant_chains");
                // did some step run into a clamp and a later one move away from it?
                let (mut qq, mut clamped, mut back) = (q as i32, false, false);
                for d in ch {
                    let want = qq + *d as i32;
                    let nq = want.clamp(1, 31);
                    if clamped && nq != qq {
                        back = true;
                    }
                    if nq != want {
                        clamped = true;
                    }
                    qq = nq;
                }
                if back {
                    rep.count("C:dquant_chains_leaving_a_clamp");
                }
                rep.distinct.insert(fnv64(&bytes));
            }
            Err(f) if f.sig == "generator-invalid" => rep.count("skipped:generator-invalid"),
            Err(f) => rep.violation(format!("C/dquant-chain/{}", f.sig), format!("PQUANT {} DQUANT chain {:?} ({}, {}): {}", q, ch, flavour.name(), if intra { "intra" } else { "inter" }, f.detail), tag),
        }
    }
}

/// Escape forms follow the version of the picture they are in, not that of any earlier picture:
/// a key picture of Sorenson version a (accepted, or rejected after its header), then a
/// predicted picture of version b != a whose coefficients are escape-coded.
fn stage_c_versions(ctx: &Ctx, q: u8, rep: &mut Report) {
    let mut rng = Rng::new(ctx.seed ^ 0xC11D, q as u64);
    for (b, forms) in [(1u8, vec![Esc::Esc7, Esc::Esc11]), (0u8, vec![Esc::Esc8])] {
        let a = 1 - b;
        for form in forms {
            let max = match form {
                Esc::Esc7 => 63,
                Esc::Esc8 => 127,
                _ => 1023,
            };
            let mut mags: Vec<i32> = vec![1, 2, 13, max / 2, max - 1, max];
            for _ in 0..ctx.n(4, 40) {
                mags.push(1 + rng.below(max as u64) as i32);
            }
            for mag in mags {
                for variant in 0..3 {
                    // 0: I(a) P(b); 1: I(b) I(a, rejected after its header) P(b); 2: I(a) D(b) P(b)
                    let level = if rng.chance(1, 2) { mag } else { -mag };
                    let pos = *rng.pick(&[0usize, 1, 7, 63]);
                    let mut dec = Dec::new(true, false);
                    let first = flat_reference(Flavour::Sor(if variant == 1 { b } else { a }), &mut rng);
                    rep.evaluations += 1;
                    if dec.decode(&first.encode()) != Outcome::Ok {
                        rep.count("skipped:reference");
                        continue;
                    }
                    if variant == 1 {
                        let mut bad = flat_reference(Flavour::Sor(a), &mut rng);
                        if let Some(SymMb::Coded { blocks, .. }) = bad.mbs.first_mut() {
                            blocks[0].intradc = Some(0);
                        }
                        if dec.decode(&bad.encode()) == Outcome::Ok {
                            rep.count("skipped:bad-key-picture-accepted");
                            continue;
                        }
                    }
                    let tag = J::obj().set("property", "C11").set("kind", "stageCversions").set("q", q as u64).set("what", format!("variant {} level {} {:?}", variant, level, form));
                    let mut refp = dec.planes().unwrap();
                    let mut ok = true;
                    let steps: &[u8] = if variant == 2 { &[2, 1] } else { &[1] };
                    for ptype in steps {
                        let mut pic = one_coeff_picture(Flavour::Sor(b), q, false, pos, level, form, 100, &mut rng);
                        if let Hdr::Sor(h) = &mut pic.hdr {
                            h.ptype = *ptype;
                        }
                        let bytes = pic.encode();
                        match check_inter(&mut dec, &refp, &pic, &bytes) {
                            Ok((_, got, _)) => {
                                if *ptype == 1 {
                                    refp = got;
                                }
                            }
                            Err(f) if f.sig == "generator-invalid" => {
                                rep.count("skipped:generator-invalid");
                                ok = false;
                                break;
                            }
                            Err(f) => {
                                rep.violation(format!("C/version-mix/{}", f.sig), format!("q={} key picture version {} then predicted picture version {} (variant {}) level {} at {} {:?}: {}", q, a, b, variant, level, pos, form, f.detail), tag.clone());
                                ok = false;
                                break;
                            }
                        }
                    }
                    if ok {
                        rep.count("C:version_mix_pictures");
                        rep.count(&format!("C:version_mix:variant{}", variant));
                    }
                }
            }
        }
    }
}

pub fn run(ctx: &Ctx) -> (Report, String) {
    let reps = par_shards(1 + 31 + 31, ctx.threads, |i| {
        let mut rep = Report::new();
        crate::mon::guarded(&mut rep, || J::obj().set("property", "C11").set("shard", i), |rep| {
            if i == 0 {
                stage_a(rep);
            } else if i <= 31 {
                if ctx.scale_pct == 100 || i % 6 == 1 {
                    stage_b(i as u8, rep);
                    stage_b_multi(ctx, i as u8, rep);
                }
            } else if ctx.scale_pct == 100 || i % 6 == 1 {
                stage_c(ctx, (i - 31) as u8, rep);
                stage_c_chains(ctx, (i - 31) as u8, rep);
                stage_c_versions(ctx, (i - 31) as u8, rep);
            }
        });
        rep
    });
    let mut rep = Report::merge_all(reps);
    rep.sample(4, || J::obj().set("stage", "B").set("domain", "q 1..31 x level -1023..1023 (non-zero) x scan position 0..63 without INTRADC and 1..63 with INTRADC").set("check", "exact coefficient = sign(L)(Q(2|L|+1) - [Q even]) clipped to -2048..2047, all other coefficients untouched"));
    rep.sample(4, || J::obj().set("stage", "C").set("picture", "16x16, one macroblock, every block carries one event (run, level) at the chosen scan position").set("dquant", "PQUANT 1..31 x DQUANT {-2,-1,+1,+2}, INTER+Q macroblock with level 5 at scan 0"));
    if ctx.is_main() && ctx.scale_pct == 100 {
        rep.require("B:coefficients_exact", 31 * 2046 * (64 + 63));
        rep.require("B:saturated", 10000);
        rep.require("B:multi_coefficient_blocks_exact", 31 * 15_000);
        rep.require("A:intradc_ok", 254 * 3);
        rep.require("A:full_blocks", 24);
        rep.require("A:intradc_rejected", 2 * 3);
        rep.require("C:dquant_updates", 31 * 4 * 2);
        rep.require("C:dquant_clamped", 8);
        rep.require("C:dquant_on_empty_macroblock", 31 * 4 * 2);
        rep.require("C:dquant_chains", 31 * 80);
        rep.require("C:dquant_chains_with_stuffing", 31 * 20);
        rep.require("C:dquant_chains_down_a_column", 31 * 30);
        rep.require("C:dquant_chains_leaving_a_clamp", 100);
        rep.require("C:version_mix:variant0", 31 * 18);
        rep.require("C:version_mix:variant1", 31 * 18);
        rep.require("C:version_mix:variant2", 31 * 18);
        rep.require("C:inter:Esc11", 1000);
        rep.require("C:predicted_pictures_without_opptype", 1000);
        rep.require("C:intra:Esc11", 1000);
        rep.exhaustive = Some(rep.violations.is_empty());
    }
    (rep, rule())
}

pub fn replay(ctx: &Ctx, j: &J, rep: &mut Report) {
    let q = j.get("q").and_then(|v| v.as_i64()).unwrap_or(1) as u8;
    match j.get("kind").and_then(|k| k.as_str()) {
        Some("stageA") => stage_a(rep),
        Some("stageB") => stage_b(q, rep),
        Some("stageBmulti") => stage_b_multi(ctx, q, rep),
        Some("stageCchains") => stage_c_chains(ctx, q, rep),
        Some("stageCversions") => stage_c_versions(ctx, q, rep),
        _ => stage_c(ctx, q, rep),
    }
}
