//! C03 - predicted pictures equal motion-compensated reference plus residual.

use super::pcheck::*;
use crate::gen::*;
use crate::json::J;
use crate::model::syntax::*;
use crate::report::Report;
use crate::sut::{Dec, Outcome};
use crate::util::{fnv64, hex, par_shards, Rng};
use crate::{Ctx, Tier};
use std::collections::BTreeMap;

const SHARDS: usize = 64;

pub fn rule() -> String {
    "cases = (textured reference picture decoded by the real decoder, chain of 1-3 valid predicted pictures generated symbolically: macroblock-type mix, differentials over the whole range, residuals, truncation, stuffing); each predicted picture is compared with the model's one-step prediction from the planes the decoder actually produced for its reference; non-trivial = contains at least one inter macroblock with a non-zero vector; distinct by hash of the encoded bytes of the chain".into()
}

#[derive(Default)]
struct Cov {
    mb: BTreeMap<(&'static str, u8, u8, &'static str), u64>,
}

fn edge_class(x0: i32, y0: i32, mv: [i32; 2], w: i32, h: i32) -> &'static str {
    // 16x16 luma area displaced by mv (half samples)
    let l = x0 + mv[0].div_euclid(2);
    let t = y0 + mv[1].div_euclid(2);
    let r = l + 15 + (mv[0].rem_euclid(2));
    let b = t + 15 + (mv[1].rem_euclid(2));
    if r < 0 || b < 0 || l >= w || t >= h {
        "outside"
    } else if l < 0 || t < 0 || r >= w || b >= h {
        "crossing"
    } else {
        "inside"
    }
}

pub fn run(ctx: &Ctx) -> (Report, String) {
    let per_shard = ctx.n(4000, 60000);
    let mut pre = Report::new();
    conformance(&mut pre);
    let reps = par_shards(SHARDS, ctx.threads, |s| {
        let mut r = Report::new();
        let mut cov = Cov::default();
        for i in 0..per_shard {
            crate::mon::guarded(&mut r, || crate::mon::coords("C03", ctx, s, i), |r| case_cov(ctx, s, i, r, &mut cov));
        }
        for ((kind, px, py, edge), n) in cov.mb {
            r.add(&format!("mb:{}:phase{}{}:{}", kind, px, py, edge), n);
            r.add(&format!("phase={}{}", px, py), n);
            r.add(&format!("edge={}", edge), n);
            r.add(&format!("kind={}", kind), n);
        }
        r
    });
    let mut rep = Report::merge_all(reps);
    rep.merge(pre);
    if !ctx.miri() && (ctx.is_main() || ctx.stage == "asan") {
        let n = ladder_items(ctx).len();
        let lr = par_shards(n, ctx.threads, |k| {
            let mut r = Report::new();
            crate::mon::guarded(&mut r, || J::obj().set("property", "C03").set("kind", "ladder").set("k", k), |r| ladder_case(ctx, k, r));
            r
        });
        rep.merge(Report::merge_all(lr));
        if ctx.is_main() {
            rep.require("ladder_p_pictures_compared", 3 * n as u64);
        }
        let pr = par_shards(64, ctx.threads, |s| {
            let mut r = Report::new();
            let mut k = s;
            while k < PAIRS_N {
                crate::mon::guarded(&mut r, || J::obj().set("property", "C03").set("kind", "pairs").set("k", k), |r| pairs_case(ctx, k, r));
                k += 64;
            }
            r
        });
        rep.merge(Report::merge_all(pr));
        if ctx.is_main() {
            rep.require("equal_magnitude_pair_pictures", PAIRS_N as u64);
        }
    }
    if ctx.is_main() {
        let m = ctx.scale_pct;
        rep.require("p_pictures_compared", if ctx.tier == Tier::Quick { 200_000 } else { 3_000_000 } * m / 100);
        for k in ["phase=00", "phase=10", "phase=01", "phase=11", "edge=inside", "edge=crossing", "edge=outside", "kind=INTER", "kind=INTER4V", "kind=INTER+Q", "kind=INTER4V+Q", "kind=not-coded", "kind=INTRA", "kind=implicit-after-end", "no_reference_rejected", "truncated_pictures", "interlude_rejected_inputs", "interlude_disposable_pictures_compared", "no_reference_after_all_intra_disposable", "no_reference_after_rejected_input", "calls_repeated_after_transient_source_error", "chains_after_an_accepted_mode_announcement", "chains_after_a_rejected_mode_announcement"] {
            rep.require(k, 1000 * m / 100);
        }
    }
    (rep, rule())
}

/// Every MCBPC-P and MVD codeword of the model through the real tree walker.
pub fn conformance(rep: &mut Report) {
    use crate::model::bits::BitWriter;
    use crate::model::tables::*;
    use h263_rs::parser::H263Reader;
    use h263_rs::verif::tables as rt;
    let feed = |c: (u32, u32)| -> Vec<u8> {
        let mut w = BitWriter::new();
        w.code(c);
        w.put(0x5555, 16);
        w.bytes
    };
    let tag = || J::obj().set("property", "C03").set("kind", "conformance");
    for (t, row) in MCBPC_P.iter().enumerate() {
        for (cbpc, c) in row.iter().enumerate() {
            let bytes = feed(*c);
            let mut rd = H263Reader::from_source(&bytes[..]);
            let got = rd.read_vlc(rt::mcbpc_p_table());
            rep.count("conformance_codewords");
            let want = ["Inter", "InterQ", "Inter4V", "Intra", "IntraQ", "Inter4Vq"][t];
            let ok = match &got {
                Ok(rt::BlockPatternEntry::Valid(k, cb, cr)) => format!("{:?}", k) == want && *cb == (cbpc & 2 != 0) && *cr == (cbpc & 1 != 0) && rd.verif_position().0 == c.1 as usize,
                _ => false,
            };
            if !ok {
                rep.violation("table/MCBPC_P", format!("MCBPC-P type {} cbpc {} decodes to {:?}", want, cbpc, got.map_err(|e| format!("{:?}", e))), tag());
            }
        }
    }
    for d in -32..=31 {
        let c = mvd_code(d);
        let bytes = feed(c);
        let mut rd = H263Reader::from_source(&bytes[..]);
        let got = rd.read_vlc(rt::mvd_table());
        rep.count("conformance_codewords");
        let ok = matches!(got, Ok(Some(f)) if (f * 2.0) as i32 == d && f * 2.0 == d as f32) && rd.verif_position().0 == c.1 as usize;
        if !ok {
            rep.violation("table/MVD", format!("MVD {} decodes to {:?}", d, got.map_err(|e| format!("{:?}", e))), tag());
        }
    }
}

/// Boundary-value ladder (see mon/ladder.rs): large / extreme-dimension reference, then a complete
/// and an early-ending predicted picture on top of it.
pub fn ladder_items(ctx: &Ctx) -> Vec<(Flavour, usize, usize)> {
    let mut rng = Rng::new(ctx.seed ^ 0xC03AD, 0);
    let mut v = vec![];
    for (i, (w, h)) in super::ladder::boundary_dims(&mut rng, ctx.tier == Tier::Thorough).into_iter().enumerate() {
        v.push((Flavour::Sor((i % 2) as u8), w, h));
    }
    for (w, h) in super::ladder::std_boundary_dims() {
        v.push((Flavour::StdPlus, w, h));
    }
    // same size, spelled with different size codes in the two headers (fixed code vs custom)
    for (w, h) in [(352usize, 288usize), (176, 144), (128, 96), (320, 240), (160, 120)] {
        v.push((Flavour::Sor(0), w, h));
    }
    v
}

pub fn ladder_case(ctx: &Ctx, k: usize, rep: &mut Report) {
    let items = ladder_items(ctx);
    let (flavour, w, h) = items[k];
    let mut rng = Rng::new(ctx.seed ^ 0xC03AD, 1 + k as u64);
    let coords = |what: &str| J::obj().set("property", "C03").set("kind", "ladder").set("tier", ctx.tier_name()).set("seed", ctx.seed).set("stage", ctx.stage.clone()).set("k", k).set("what", format!("{} {}x{} {}", flavour.name(), w, h, what));
    let n = ((w + 15) / 16) * ((h + 15) / 16);
    let mut cuts: Vec<Option<usize>> = vec![None, Some(n / 2), Some(n.saturating_sub(1))];
    for t in [0usize, 1, 1024, 4095, 4096, 4097, 8192] {
        if t < n {
            cuts.push(Some(t));
        }
    }
    // one extra variant: every macroblock inter with random vectors (cut = usize::MAX marks it)
    cuts.push(Some(usize::MAX));
    for (ci, cut) in cuts.into_iter().enumerate() {
        let mut cfg = super::ladder::cfg_for(&mut rng, flavour, w, h, 0);
        // the reference prefers the fixed size code where one exists, the predicted picture the custom one
        cfg.prefer_fixed_size_code = true;
        cfg.force16 = false;
        let refpic = super::ladder::large_intra(&mut rng, &cfg);
        let rb = refpic.encode();
        let mut dec = Dec::new(flavour.sorenson(), false);
        rep.evaluations += 1;
        if dec.decode(&rb) != Outcome::Ok {
            rep.count("ladder_skipped:reference");
            return;
        }
        let refp = dec.planes().unwrap();
        cfg.tr = cfg.tr.wrapping_add(1);
        cfg.prefer_fixed_size_code = ci % 2 == 1;
        cfg.force16 = ci % 3 == 2;
        let dense = cut == Some(usize::MAX);
        let pic = if dense { super::ladder::dense_inter(&mut rng, &cfg) } else { super::ladder::large_inter(&mut rng, &cfg, false, cut) };
        let bytes = pic.encode();
        match check_inter(&mut dec, &refp, &pic, &bytes) {
            Ok(_) => {
                rep.count("ladder_p_pictures_compared");
                if dense {
                    rep.count("ladder_dense_vector_pictures");
                } else if cut.is_some() {
                    rep.count("ladder_truncated_compared");
                }
                rep.distinct.insert(fnv64(&bytes));
            }
            Err(f) if f.sig == "generator-invalid" => rep.inconclusive.push(f.detail),
            Err(f) => {
                rep.violation(format!("ladder/{}", f.sig), format!("{} {}x{} ({} macroblocks) cut={:?}: {}", flavour.name(), w, h, n, cut, f.detail), coords(&format!("cut={:?}", cut)));
                return;
            }
        }
    }
}

/// Directed residuals: every pair of scan positions (0..64) carrying levels of equal magnitude, all
/// sign combinations, in inter blocks over a flat reference - six blocks per 16x16 predicted picture.
pub fn pairs_case(ctx: &Ctx, k: usize, rep: &mut Report) {
    let mut rng = Rng::new(ctx.seed ^ 0xC03BA, k as u64);
    let flavour = if k % 3 == 2 { Flavour::StdPlus } else { Flavour::Sor((k % 2) as u8) };
    let mut cfg = gen_cfg(&mut rng, flavour, 16, 16);
    cfg.pei = 0;
    cfg.stuffing_pct = 0;
    let flat = {
        let hdr = make_header(&cfg, 0, &mut rng);
        let dc = *rng.pick(&[60u8, 127, 200]);
        SymPicture { hdr, w: 16, h: 16, mbs: vec![SymMb::Coded { kind: crate::model::tables::MbKind::Intra, dquant: 1, mvd: [[0; 2]; 4], blocks: std::array::from_fn(|_| SymBlock { intradc: Some(dc), events: vec![] }) }], stuffing: vec![] }
    };
    let mut dec = Dec::new(flavour.sorenson(), false);
    rep.evaluations += 1;
    if dec.decode(&flat.encode()) != Outcome::Ok {
        rep.count("skipped:pairs-reference");
        return;
    }
    let refp = dec.planes().unwrap();
    cfg.tr = cfg.tr.wrapping_add(1);
    let hdr = make_header(&cfg, 1, &mut rng);
    let mag = 1 + rng.below(9) as i32;
    let blocks: [SymBlock; 6] = std::array::from_fn(|b| {
        let idx = k * 6 + b;
        let (pair, signs) = (idx / 4, idx % 4);
        let (mut p1, mut rem) = (0usize, pair);
        while p1 < 63 && rem >= 63 - p1 {
            rem -= 63 - p1;
            p1 += 1;
        }
        if p1 >= 63 {
            return SymBlock::default();
        }
        let p2 = p1 + 1 + rem;
        let (l1, l2) = (if signs & 1 == 0 { mag } else { -mag }, if signs & 2 == 0 { mag } else { -mag });
        let esc = if flavour == Flavour::Sor(1) { Esc::Esc7 } else { Esc::Esc8 };
        SymBlock { intradc: None, events: vec![Ev { run: p1 as u8, level: l1, esc }, Ev { run: (p2 - p1 - 1) as u8, level: l2, esc }] }
    });
    let pic = SymPicture { hdr, w: 16, h: 16, mbs: vec![SymMb::Coded { kind: crate::model::tables::MbKind::Inter, dquant: 1, mvd: [[0; 2]; 4], blocks }], stuffing: vec![] };
    let bytes = pic.encode();
    match check_inter(&mut dec, &refp, &pic, &bytes) {
        Ok(_) => {
            rep.count("equal_magnitude_pair_pictures");
            rep.distinct.insert(fnv64(&bytes));
        }
        Err(f) if f.sig == "generator-invalid" => rep.inconclusive.push(f.detail),
        Err(f) => rep.violation(format!("pairs/{}", f.sig), format!("{} q={} |level|={} pairs picture {}: {}", flavour.name(), cfg.quant, mag, k, f.detail), J::obj().set("property", "C03").set("kind", "pairs").set("tier", ctx.tier_name()).set("seed", ctx.seed).set("stage", ctx.stage.clone()).set("k", k)),
    }
}

pub const PAIRS_N: usize = (2016 * 4 + 5) / 6;

pub fn case(ctx: &Ctx, shard: usize, index: u64, rep: &mut Report) {
    let mut cov = Cov::default();
    case_cov(ctx, shard, index, rep, &mut cov);
}

fn case_cov(ctx: &Ctx, shard: usize, index: u64, rep: &mut Report, cov: &mut Cov) {
    let mut rng = Rng::new(ctx.seed ^ 0xC03, ((shard as u64) << 40) | index);
    rep.evaluations += 1;
    let max = match rng.below(100) {
        0..=79 => 72,
        80..=96 => 180,
        _ => {
            if ctx.tier == Tier::Thorough {
                420
            } else {
                260
            }
        }
    };
    let (flavour, w, h) = gen_flavour_and_size(&mut rng, max, false);
    let mut cfg = gen_cfg(&mut rng, flavour, w, h);
    let coords = |extra: &str| crate::mon::coords("C03", ctx, shard, index).set("what", extra);

    // sub-case: prediction needed but no reference exists -> must be rejected
    if rng.chance(1, 12) {
        let ic = InterCfg { ptype: 0, big_vectors_pct: 30, residual_pct: 30, truncate: None, allow_q: true };
        let pic = gen_inter(&mut rng, &cfg, &ic);
        let needs_pred = pic.mbs.len() < pic.mbw() * pic.mbh() || pic.mbs.iter().any(|m| match m {
            SymMb::NotCoded | SymMb::Raw(_) => true,
            SymMb::Coded { kind, .. } => !kind.is_intra(),
        });
        let bytes = pic.encode();
        let mut dec = Dec::new(flavour.sorenson(), false);
        // history variant: the decoder has already seen pictures, but none that may serve as a
        // reference - rejected inputs, and complete disposable pictures made of intra macroblocks only
        if rng.chance(1, 2) {
            for _ in 0..1 + rng.below(3) {
                if flavour.sorenson() && rng.chance(2, 3) {
                    let mut c2 = cfg.clone();
                    if rng.chance(1, 3) {
                        c2.w = 1 + rng.below(40) as usize;
                    }
                    let mut d = gen_reference(&mut rng, &c2);
                    if let Hdr::Sor(hd) = &mut d.hdr {
                        hd.ptype = 2;
                    }
                    match dec.decode(&d.encode()) {
                        Outcome::Ok => rep.count("no_reference_after_all_intra_disposable"),
                        Outcome::Panic { msg, loc } => {
                            rep.violation(format!("panic@{}", loc), format!("all-intra disposable picture on a fresh decoder panicked: {}", msg), coords("no-reference-history"));
                            return;
                        }
                        Outcome::Err(_) => rep.count("void:all-intra-disposable-refused"),
                    }
                } else {
                    let fb = super::c04::failing_input(&mut rng, &cfg);
                    if dec.decode(&fb) == Outcome::Ok {
                        rep.count("void:failing-input-accepted");
                        return;
                    }
                    rep.count("no_reference_after_rejected_input");
                }
            }
        }
        let out = dec.decode(&bytes);
        match (&out, needs_pred) {
            (Outcome::Err(_), true) => rep.count("no_reference_rejected"),
            (Outcome::Ok, false) => rep.count("no_reference_all_intra_accepted"),
            (Outcome::Panic { msg, loc }, _) => rep.violation(format!("panic@{}", loc), format!("P picture without reference panicked: {}", msg), coords("no-reference").set("bytes", hex(&bytes))),
            (Outcome::Ok, true) => rep.violation("no-reference-accepted", format!("{} P picture {}x{} with inter macroblocks decoded successfully although no reference exists", flavour.name(), w, h), coords("no-reference").set("bytes", hex(&bytes))),
            (Outcome::Err(k), false) => rep.violation(format!("all-intra-P-rejected/{}", k), format!("P picture {}x{} with only intra macroblocks rejected: {}", w, h, k), coords("no-reference").set("bytes", hex(&bytes))),
        }
        return;
    }

    let (mut dec, mut refp, ref_bytes) = match fresh_reference(&mut rng, &cfg) {
        Ok(x) => x,
        Err(f) => {
            // a valid intra picture failing is C02's finding; here it only blocks the case
            rep.count(&format!("skipped:{}", f.sig));
            return;
        }
    };
    // baseline streams: an earlier PLUSPTYPE picture may have announced unrestricted motion vectors (an
    // accepted intra picture, which becomes the reference, or a picture rejected after its header) -
    // the baseline pictures that follow still wrap their vectors
    if flavour == Flavour::StdFixed && rng.chance(1, 2) {
        let accepted = rng.chance(1, 2);
        let ann = super::c12::umv_announcement(&mut rng, w, h, true, !accepted).encode();
        match (dec.decode(&ann), accepted) {
            (Outcome::Ok, true) => {
                refp = dec.planes().unwrap();
                rep.count("chains_after_an_accepted_mode_announcement");
            }
            (Outcome::Err(_), false) => rep.count("chains_after_a_rejected_mode_announcement"),
            (Outcome::Panic { msg, loc }, _) => {
                rep.violation(format!("panic@{}", loc), format!("mode announcement panicked: {}", msg), coords("announcement"));
                return;
            }
            (o, _) => {
                rep.count(&format!("skipped:announcement:{}", o.short()));
                return;
            }
        }
    }
    // the source of each following picture may hand out only a few bytes per read call
    dec.chunk = *rng.pick(&[usize::MAX, usize::MAX, usize::MAX, 1, 3, 16, 500]);
    if rng.chance(1, 6) {
        dec.stall = Some((rng.below(1001) as usize, rng.below(3) as u8));
    }
    // ... or arrive late: the first few bytes of each picture now, the rest after the call failed for lack of data
    if dec.stall.is_none() && rng.chance(1, 8) {
        dec.trickle = Some(1 + rng.below(6) as usize);
    }
    let chain = 1 + rng.below(3) as usize;
    let mut fp = fnv64(&ref_bytes);
    let mut nontrivial = false;
    for step in 0..chain {
        cfg.tr = cfg.tr.wrapping_add(1 + rng.below(3) as u8);
        cfg.quant = 1 + rng.below(31) as u8;
        cfg.stuffing_pct = *rng.pick(&[0u64, 0, 20]);
        let nmb = ((w + 15) / 16) * ((h + 15) / 16);
        let truncate = if rng.chance(1, 6) { Some(rng.below(nmb as u64 + 1) as usize) } else { None };
        let ic = InterCfg { ptype: 0, big_vectors_pct: *rng.pick(&[0u64, 30, 100]), residual_pct: *rng.pick(&[0u64, 0, 30, 80]), truncate, allow_q: true };
        // interlude: events that must leave the current reference picture alone - inputs that are
        // rejected (among them intra pictures whose header parses and whose body does not) and,
        // in Sorenson streams, disposable pictures (themselves checked against the reference)
        if rng.chance(1, 4) {
            for _ in 0..1 + rng.below(3) {
                if flavour.sorenson() && rng.chance(1, 2) {
                    let mut c2 = cfg.clone();
                    c2.tr = cfg.tr.wrapping_add(rng.below(3) as u8);
                    let ic2 = InterCfg { ptype: 2, big_vectors_pct: 30, residual_pct: 30, truncate: None, allow_q: true };
                    let d = gen_inter(&mut rng, &c2, &ic2);
                    let db = d.encode();
                    fp = crate::util::fnv64_more(fp, &db);
                    match check_inter(&mut dec, &refp, &d, &db) {
                        Ok(_) => rep.count("interlude_disposable_pictures_compared"),
                        Err(f) if f.sig == "generator-invalid" => {
                            rep.inconclusive.push(f.detail);
                            return;
                        }
                        Err(f) => {
                            rep.violation(format!("interlude/{}", f.sig), format!("{} disposable picture before step {}: {}", flavour.name(), step, f.detail), coords("chain"));
                            return;
                        }
                    }
                } else {
                    let fb = super::c04::failing_input(&mut rng, &cfg);
                    fp = crate::util::fnv64_more(fp, &fb);
                    match dec.decode(&fb) {
                        Outcome::Err(_) => rep.count("interlude_rejected_inputs"),
                        Outcome::Ok => {
                            rep.count("void:failing-input-accepted");
                            return;
                        }
                        Outcome::Panic { msg, loc } => {
                            rep.violation(format!("panic@{}", loc), format!("rejected-input interlude panicked: {}", msg), coords("chain"));
                            return;
                        }
                    }
                }
            }
            rep.count("chains_with_interlude");
        }
        let pic = gen_inter(&mut rng, &cfg, &ic);
        let bytes = pic.encode();
        fp = crate::util::fnv64_more(fp, &bytes);
        match check_inter(&mut dec, &refp, &pic, &bytes) {
            Err(f) => {
                if f.sig == "generator-invalid" {
                    rep.inconclusive.push(f.detail);
                } else {
                    rep.violation(f.sig, format!("{} step {} of {}: {} [reference {} bytes, picture {}]", flavour.name(), step, chain, f.detail, ref_bytes.len(), hex(&bytes[..bytes.len().min(48)])), coords("chain"));
                }
                return;
            }
            Ok((rec, got, tol)) => {
                rep.count("p_pictures_compared");
                rep.add("samples_compared", (got.y.len() + 2 * got.cb.len()) as u64);
                rep.add("samples_inside_tolerance_window", tol);
                rep.max("max_tau", rec.max_tau);
                if truncate.is_some() && pic.mbs.len() < nmb {
                    rep.count("truncated_pictures");
                }
                rep.count(&format!("flavour={}", flavour.name()));
                let mbw = pic.mbw();
                for i in 0..nmb {
                    let (x0, y0) = ((i % mbw * 16) as i32, (i / mbw * 16) as i32);
                    let kind: &'static str = match pic.mbs.get(i) {
                        None => "implicit-after-end",
                        Some(SymMb::NotCoded) => "not-coded",
                        Some(SymMb::Raw(_)) => "raw",
                        Some(SymMb::Coded { kind, .. }) => kind.name(),
                    };
                    let mv = rec.mvs[i][0];
                    if mv != [0, 0] {
                        nontrivial = true;
                    }
                    let e = edge_class(x0, y0, mv, w as i32, h as i32);
                    *cov.mb.entry((kind, mv[0].rem_euclid(2) as u8, mv[1].rem_euclid(2) as u8, e)).or_insert(0) += 1;
                }
                if shard == 0 && index < 40 && step == 0 {
                    rep.sample(6, || {
                        J::obj().set("flavour", flavour.name()).set("w", w).set("h", h).set("chain", chain).set("macroblocks_coded", pic.mbs.len()).set("macroblocks_total", nmb).set(
                            "first_macroblocks",
                            J::Arr(
                                pic.mbs
                                    .iter()
                                    .take(4)
                                    .enumerate()
                                    .map(|(i, m)| match m {
                                        SymMb::NotCoded => J::Str("not-coded".into()),
                                        SymMb::Raw(_) => J::Str("raw".into()),
                                        SymMb::Coded { kind, mvd, .. } => J::Str(format!("{} mvd={:?} -> mv={:?}", kind.name(), &mvd[..if kind.four() { 4 } else { 1 }], &rec.mvs[i][..if kind.four() { 4 } else { 1 }])),
                                    })
                                    .collect(),
                            ),
                        )
                    });
                }
                refp = got;
            }
        }
    }
    rep.add("calls_repeated_after_transient_source_error", dec.stalls_retried as u64);
    rep.add("calls_repeated_after_late_delivery", dec.trickles_retried as u64);
    if nontrivial {
        rep.distinct.insert(fp);
    }
}
