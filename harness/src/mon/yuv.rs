//! C07 - BT.601 conversion for all 2^24 colours; C08 - 4:2:0 pairing at any size.
//! The real code is driven through the public `yuv420_to_rgba` only.

use crate::json::J;
use crate::model::bt601::{coef, convert_fixed, convert_real, Coef};
use crate::report::Report;
use crate::util::{catch, fnv64, par_shards, Rng};
use crate::{Ctx, Tier};
use h263_rs_yuv::bt601::yuv420_to_rgba;

pub fn rule_c07() -> String {
    "cases = every (Y, Cb, Cr) byte triple, pushed through yuv420_to_rgba twice: in the 4-pixel vector body (512x2 pictures: 256 chroma values x 4 luma values per call) and in the per-row remainder path (7x1 pictures); each output pixel compared with the 16.16 fixed-point model whose coefficients are computed from the BT.601 constants, with the real-valued formula (within 1) and alpha = 255; monotonicity scanned on the returned values along every axis; distinct = triples enumerated (counted by the enumeration, each is a different input)".into()
}

fn check_px(k: &Coef, y: u8, cb: u8, cr: u8, got: &[u8], path: &'static str, rep: &mut Report) -> bool {
    let want = convert_fixed(k, y, cb, cr);
    if got != want {
        let ch = (0..4).find(|i| got[*i] != want[*i]).unwrap();
        rep.violation(
            format!("colour/{}/{}", path, ["R", "G", "B", "A"][ch]),
            format!("({},{},{}) via {} path: got {:?}, fixed-point model {:?}", y, cb, cr, path, got, want),
            J::obj().set("property", "C07").set("kind", "triple").set("y", y as u64).set("cb", cb as u64).set("cr", cr as u64),
        );
        return false;
    }
    let real = convert_real(y, cb, cr);
    for c in 0..3 {
        if (got[c] as f64 - real[c]).abs() > 1.0 {
            rep.violation(format!("colour/real-distance/{}", ["R", "G", "B"][c]), format!("({},{},{}): channel {} = {} but the real-valued formula gives {:.3}", y, cb, cr, c, got[c], real[c]), J::obj().set("property", "C07").set("kind", "triple").set("y", y as u64).set("cb", cb as u64).set("cr", cr as u64));
            return false;
        }
    }
    true
}

pub fn run_c07(ctx: &Ctx) -> (Report, String) {
    let k = coef();
    // shards = Cr values; a scaled run takes every n-th Cr value
    let miri = ctx.miri();
    // under the interpreter: 16 Cr values (one per process), a few luma groups, a thinned remainder sweep
    let step = if miri { 16 } else { (100 / ctx.scale_pct.clamp(1, 100)) as usize };
    let crs: Vec<u8> = (0..256usize).filter(|c| c % step == 0).map(|c| (c + if miri { 7 } else { 0 }) as u8).collect();
    let results = par_shards(crs.len(), ctx.threads, |si| {
        let cr = crs[si];
        let mut rep = Report::new();
        // table[y][cb] of RGB for this cr, from the body path
        let mut table = vec![[0u8; 3]; 65536];
        let r = catch(|| {
            // ---- vector body: 512x2, chroma_b = 0..255, chroma_r = cr ----
            let cbp: Vec<u8> = (0..=255u8).collect();
            let crp = vec![cr; 256];
            for yg in (0..64u32).filter(|g| !miri || g % 32 == 5) {
                let mut yp = vec![0u8; 1024];
                for cx in 0..256usize {
                    // the four luma samples of chroma sample cx get Y = 4*yg + 0..3
                    yp[2 * cx] = (4 * yg) as u8;
                    yp[2 * cx + 1] = (4 * yg + 1) as u8;
                    yp[512 + 2 * cx] = (4 * yg + 2) as u8;
                    yp[512 + 2 * cx + 1] = (4 * yg + 3) as u8;
                }
                let out = yuv420_to_rgba(&yp, &cbp, &crp, 512);
                rep.evaluations += 1;
                if out.len() != 4096 {
                    rep.violation("length", format!("512x2 picture gave {} bytes", out.len()), J::obj().set("property", "C07").set("kind", "length"));
                    return;
                }
                for (i, px) in out.chunks(4).enumerate() {
                    let (x, row) = (i % 512, i / 512);
                    let y = yp[i];
                    let cb = (x / 2) as u8;
                    debug_assert_eq!(y as usize, 4 * yg as usize + row * 2 + (x & 1));
                    if !check_px(&k, y, cb, cr, px, "vector", &mut rep) {
                        return;
                    }
                    table[(y as usize) << 8 | cb as usize] = [px[0], px[1], px[2]];
                    rep.distinct_enumerated += 1;
                }
            }
            // ---- remainder path: 7x1; pixels 4..6 use chroma samples 2 and 3 ----
            for cb in (0..=255u8).filter(|c| !miri || c % 64 == 9) {
                let cbp = [cb ^ 0x5a, cb ^ 0xa5, cb, cb];
                let crp = [cr ^ 0x33, cr ^ 0xcc, cr, cr];
                let mut y0 = 0u32;
                while y0 < 256 {
                    let yp: Vec<u8> = (0..7u32).map(|i| if i < 4 { (y0 * 7 + i) as u8 } else { (y0 + i - 4).min(255) as u8 }).collect();
                    let out = yuv420_to_rgba(&yp, &cbp, &crp, 7);
                    rep.evaluations += 1;
                    if out.len() != 28 {
                        rep.violation("length", format!("7x1 picture gave {} bytes", out.len()), J::obj().set("property", "C07").set("kind", "length"));
                        return;
                    }
                    for i in 4..7usize {
                        if !check_px(&k, yp[i], cb, cr, &out[4 * i..4 * i + 4], "remainder", &mut rep) {
                            return;
                        }
                        rep.add("remainder_path_triples", 1);
                    }
                    // the body part of the same row is checked too (different chroma samples)
                    for i in 0..4usize {
                        if !check_px(&k, yp[i], cbp[i / 2], crp[i / 2], &out[4 * i..4 * i + 4], "vector", &mut rep) {
                            return;
                        }
                    }
                    y0 += if miri { 48 } else { 3 };
                }
            }
        });
        if let Err(p) = r {
            rep.violation(format!("panic@{}", p.loc), format!("conversion panicked: {}", p.msg), J::obj().set("property", "C07").set("kind", "panic"));
        }
        if miri {
            return (rep, table);
        }
        // monotonicity inside this Cr slice: R,G,B non-decreasing in Y; B non-decreasing in Cb; G non-increasing in Cb
        let mut mono_checks = 0u64;
        for cb in 0..256usize {
            for y in 1..256usize {
                let a = table[(y - 1) << 8 | cb];
                let b = table[y << 8 | cb];
                mono_checks += 1;
                if b[0] < a[0] || b[1] < a[1] || b[2] < a[2] {
                    rep.violation("monotone/Y", format!("not monotone in Y at (y={},cb={},cr={}): {:?} -> {:?}", y, cb, cr, a, b), J::obj().set("property", "C07").set("kind", "monotone"));
                }
            }
        }
        for y in 0..256usize {
            for cb in 1..256usize {
                let a = table[y << 8 | (cb - 1)];
                let b = table[y << 8 | cb];
                mono_checks += 1;
                if b[2] < a[2] || b[1] > a[1] || b[0] != a[0] {
                    rep.violation("monotone/Cb", format!("Cb axis at (y={},cb={},cr={}): {:?} -> {:?}", y, cb, cr, a, b), J::obj().set("property", "C07").set("kind", "monotone"));
                }
            }
        }
        rep.add("monotonicity_comparisons", mono_checks);
        (rep, table)
    });
    // across Cr (needs neighbouring slices): R non-decreasing, G non-increasing, B constant
    let mut rep = Report::new();
    let mut tables: Vec<Vec<[u8; 3]>> = vec![];
    for (r, t) in results {
        rep.merge(r);
        tables.push(t);
    }
    if step == 1 && rep.violations.is_empty() {
        let mut n = 0u64;
        for c in 1..tables.len() {
            for i in 0..65536usize {
                let a = tables[c - 1][i];
                let b = tables[c][i];
                n += 1;
                if b[0] < a[0] || b[1] > a[1] || b[2] != a[2] {
                    rep.violation("monotone/Cr", format!("Cr axis at (y={},cb={},cr={}): {:?} -> {:?}", i >> 8, i & 255, c, a, b), J::obj().set("property", "C07").set("kind", "monotone"));
                    break;
                }
            }
        }
        rep.add("monotonicity_comparisons", n);
    }
    // the per-colour mapping must not depend on where the pixel is or how large the picture is: a few
    // large two-dimensional pictures and near-duplicate-neighbour contents, every pixel against the model
    if !miri {
        let mut crng = Rng::new(ctx.seed ^ 0xC07C, 0);
        let mut sizes: Vec<(usize, usize)> = vec![(1280, 720), (1920, 1080), (2051, 514), (1084, 971), (4099, 9), (9, 4099), (64, 64), (43, 17)];
        for _ in 0..4 {
            sizes.push((1000 + crng.below(1600) as usize, 420 + crng.below(700) as usize));
        }
        for (i, (w, h)) in sizes.into_iter().enumerate() {
            let before = rep.get("images_compared");
            c08_image(&k, &mut crng, w, h, [0usize, 5, 3][i % 3], &mut rep);
            if rep.get("images_compared") > before {
                rep.count("context_images_compared");
            }
        }
        // mostly-neutral pictures with one to three deviating samples near the ends of the planes
        // (a whole-picture shortcut must look at every sample before it is taken)
        for w in 1..=40usize {
            for h in 1..=40usize {
                let before = rep.get("images_compared");
                c08_image(&k, &mut crng, w, h, 6, &mut rep);
                if rep.get("images_compared") > before {
                    rep.count("sparse_deviation_images_compared");
                }
            }
        }
        // the colour of a pixel depends on its own chroma sample only, whatever the neighbouring sample
        // of the same 4-pixel group holds: groups (left, right) with special values next to every value,
        // the two chroma planes equal / crossed / independent
        let specials = [0u8, 16, 127, 128, 129, 240, 255];
        let mut groups: Vec<[u8; 4]> = vec![]; // cbL, cbR, crL, crR
        for sp in specials {
            for x in 0..=255u8 {
                groups.extend([[sp, x, sp, x], [x, sp, x, sp], [sp, x, sp, sp], [sp, sp, sp, x], [sp, x, x, sp], [x, x, sp, sp], [sp, sp, x, x], [sp, x, sp, x ^ 1]]);
            }
        }
        for chunk in groups.chunks(128) {
            for width in [512usize, 515] {
                // 2 rows; chroma sample pairs (2g, 2g+1) belong to the same 4-pixel group of each row
                let cw = (width + 1) / 2;
                let mut cbp = vec![128u8; cw];
                let mut crp = vec![128u8; cw];
                for (g, q) in chunk.iter().enumerate() {
                    cbp[2 * g] = q[0];
                    cbp[2 * g + 1] = q[1];
                    crp[2 * g] = q[2];
                    crp[2 * g + 1] = q[3];
                }
                let mut yp = vec![0u8; 2 * width];
                crng.fill(&mut yp);
                for (i, v) in yp.iter_mut().enumerate() {
                    if i % 3 == 0 {
                        *v = [0u8, 16, 128, 235, 255][(i / 3) % 5];
                    }
                }
                let out = match catch(|| yuv420_to_rgba(&yp, &cbp, &crp, width)) {
                    Ok(o) => o,
                    Err(p) => {
                        rep.violation(format!("panic@{}", p.loc), format!("neighbour-context picture panicked: {}", p.msg), J::obj().set("property", "C07").set("kind", "panic"));
                        break;
                    }
                };
                rep.evaluations += 1;
                if out.len() != 8 * width {
                    rep.violation("length", format!("{}x2 picture gave {} bytes", width, out.len()), J::obj().set("property", "C07").set("kind", "length"));
                    break;
                }
                let mut ok = true;
                for (i, px) in out.chunks(4).enumerate() {
                    let x = i % width;
                    if !check_px(&k, yp[i], cbp[x / 2], crp[x / 2], px, "neighbour-context", &mut rep) {
                        ok = false;
                        break;
                    }
                }
                if ok {
                    rep.add("neighbour_context_groups", chunk.len() as u64);
                }
            }
        }
        rep.merge(c08_sequences(ctx));
        // C08's helper files violations under C08-style signatures with property tag C08 in the replay; fine for a witness
    }
    rep.exhaustive = Some(step == 1 && rep.distinct_enumerated == 1 << 24 && rep.violations.is_empty());
    rep.sample(4, || J::obj().set("picture", "512x2: Cb plane = 0..255, Cr plane constant, luma rows carry 4 consecutive Y values per chroma sample").set("calls_per_cr", 64).set("triples_per_call", 1024));
    rep.sample(4, || J::obj().set("picture", "7x1: pixels 4..6 go through the remainder path with chroma samples 2,3").set("model_coefficients", format!("{} {} {} {} {}", k.gray, k.cr2r, k.cr2g, k.cb2g, k.cb2b)));
    if ctx.is_main() && step == 1 {
        rep.require("context_images_compared", 12);
        rep.require("sparse_deviation_images_compared", 1600);
        rep.require("neighbour_context_groups", 2 * 7 * 256 * 8);
        rep.require("remainder_path_triples", 1 << 24);
    }
    (rep, rule_c07())
}

pub fn replay_c07(j: &J, rep: &mut Report) {
    let g = |k: &str| j.get(k).and_then(|v| v.as_i64()).unwrap_or(0) as u8;
    let (y, cb, cr) = (g("y"), g("cb"), g("cr"));
    let k = coef();
    let out = yuv420_to_rgba(&[y, y, y, y], &[cb, cb], &[cr, cr], 4);
    check_px(&k, y, cb, cr, &out[0..4], "vector", rep);
    let out = yuv420_to_rgba(&[0, 0, 0, 0, y, y, y], &[0, 0, cb, cb], &[0, 0, cr, cr], 7);
    check_px(&k, y, cb, cr, &out[16..20], "remainder", rep);
}

// ------------------------------------------------------------------------------------------
// C08
// ------------------------------------------------------------------------------------------

pub fn rule_c08() -> String {
    "cases = (width, height, fill) with width x height enumerated densely (every residue mod 4 and mod 2, 1-pixel rows and columns, strips) and three plane fills (random, position-unique ramp, extremes); every output pixel compared with the model colour of (Y[x,y], Cb[x/2,y/2], Cr[x/2,y/2]); distinct by (w, h, fill); non-trivial = at least one pixel".into()
}

fn fill_planes(rng: &mut Rng, w: usize, h: usize, fill: usize) -> (Vec<u8>, Vec<u8>, Vec<u8>) {
    let (cw, ch) = ((w + 1) / 2, (h + 1) / 2);
    let mut y = vec![0u8; w * h];
    let mut cb = vec![0u8; cw * ch];
    let mut cr = vec![0u8; cw * ch];
    match fill {
        0 => {
            rng.fill(&mut y);
            rng.fill(&mut cb);
            rng.fill(&mut cr);
        }
        1 => {
            for j in 0..h {
                for i in 0..w {
                    y[j * w + i] = (i * 7 + j * 13 + 3) as u8;
                }
            }
            for j in 0..ch {
                for i in 0..cw {
                    cb[j * cw + i] = (i * 29 + j * 31 + 1) as u8;
                    cr[j * cw + i] = (i * 37 + j * 41 + 128) as u8;
                }
            }
        }
        3 => {
            // periodic / repeated structure: repeated rows and columns (period 1, 2, 4 or 8 in each
            // direction, independently for luma and chroma) - content-dependent shortcuts show here
            let (px, py, cx, cy) = (1usize << rng.below(4), 1usize << rng.below(4), 1usize << rng.below(3), 1usize << rng.below(3));
            let mut ty = [0u8; 64];
            let mut tb = [0u8; 64];
            let mut tr = [0u8; 64];
            rng.fill(&mut ty);
            rng.fill(&mut tb);
            rng.fill(&mut tr);
            for j in 0..h {
                for i in 0..w {
                    y[j * w + i] = ty[(j % py) * 8 + i % px];
                }
            }
            for j in 0..ch {
                for i in 0..cw {
                    cb[j * cw + i] = tb[(j % cy) * 8 + i % cx];
                    cr[j * cw + i] = tr[(j % cy) * 8 + i % cx];
                }
            }
        }
        5 => {
            // near-duplicate neighbours: every 4-pixel group (and its chroma pair) starts as a copy of one
            // pattern, then single samples are perturbed - shortcuts keyed on "same as the previous group" show here
            let mut ty = [0u8; 4];
            rng.fill(&mut ty);
            let (tb, tr) = ([rng.byte(), rng.byte()], [rng.byte(), rng.byte()]);
            let masks = [0x00u8, 0x0f, 0xf0, 0xff, 0x80, 0x01];
            for j in 0..h {
                for i in 0..w {
                    y[j * w + i] = ty[i % 4];
                }
            }
            for j in 0..ch {
                for i in 0..cw {
                    cb[j * cw + i] = tb[i % 2];
                    cr[j * cw + i] = tr[i % 2];
                }
            }
            let n = (w * h / 6).max(1);
            for _ in 0..n {
                match rng.below(3) {
                    0 => {
                        let p = rng.below((w * h) as u64) as usize;
                        y[p] = if rng.chance(1, 2) { rng.byte() } else { y[p] ^ *rng.pick(&masks) };
                    }
                    1 => {
                        let p = rng.below((cw * ch) as u64) as usize;
                        cb[p] = if rng.chance(1, 2) { rng.byte() } else { *rng.pick(&masks) };
                    }
                    _ => {
                        let p = rng.below((cw * ch) as u64) as usize;
                        cr[p] = if rng.chance(1, 2) { rng.byte() } else { *rng.pick(&masks) };
                    }
                }
            }
        }
        6 => {
            // planes constant (chroma mostly neutral) except for one to three samples at the places where
            // shortcuts and remainders meet: the very first / last few samples, the ends of rows
            let cy = *rng.pick(&[0u8, 16, 128, 235, 255, 77]);
            let (cbv, crv) = if rng.chance(2, 3) { (128u8, 128u8) } else { (*rng.pick(&[0u8, 16, 128, 240, 255]), *rng.pick(&[0u8, 16, 128, 240, 255])) };
            y.iter_mut().for_each(|v| *v = cy);
            cb.iter_mut().for_each(|v| *v = cbv);
            cr.iter_mut().for_each(|v| *v = crv);
            for _ in 0..1 + rng.below(3) {
                let which = rng.below(3);
                let (len, roww) = if which == 0 { (w * h, w) } else { (cw * ch, cw) };
                let back = rng.below(9) as usize;
                let p = match rng.below(5) {
                    0 | 1 => len.saturating_sub(1 + back),
                    2 => back.min(len - 1),
                    3 => (roww * (1 + rng.below((len / roww) as u64) as usize)).saturating_sub(1 + back % 4).min(len - 1),
                    _ => rng.below(len as u64) as usize,
                };
                let nv = *rng.pick(&[0u8, 255, 1, 254, 90, 200]);
                match which {
                    0 => y[p] = nv,
                    1 => cb[p] = nv,
                    _ => cr[p] = nv,
                }
            }
        }
        4 => {
            // one plane constant, the others random
            rng.fill(&mut y);
            rng.fill(&mut cb);
            rng.fill(&mut cr);
            let c = rng.byte();
            match rng.below(3) {
                0 => y.iter_mut().for_each(|v| *v = c),
                1 => cb.iter_mut().for_each(|v| *v = c),
                _ => cr.iter_mut().for_each(|v| *v = c),
            }
        }
        _ => {
            for v in y.iter_mut() {
                *v = *rng.pick(&[0u8, 255, 16, 235]);
            }
            for v in cb.iter_mut() {
                *v = *rng.pick(&[0u8, 255, 16, 240, 128]);
            }
            for v in cr.iter_mut() {
                *v = *rng.pick(&[0u8, 255, 16, 240, 128]);
            }
        }
    }
    (y, cb, cr)
}

fn c08_image(k: &Coef, rng: &mut Rng, w: usize, h: usize, fill: usize, rep: &mut Report) {
    let (y, cb, cr) = fill_planes(rng, w, h, fill);
    c08_planes(k, y, cb, cr, w, h, fill, rep);
}

#[allow(clippy::too_many_arguments)]
fn c08_planes(k: &Coef, y: Vec<u8>, cb: Vec<u8>, cr: Vec<u8>, w: usize, h: usize, fill: usize, rep: &mut Report) {
    let cw = (w + 1) / 2;
    rep.evaluations += 1;
    let coords = || J::obj().set("property", "C08").set("kind", "image").set("w", w).set("h", h).set("fill", fill).set("y", if y.len() <= 65536 { crate::util::hex(&y) } else { String::new() }).set("cb", if y.len() <= 65536 { crate::util::hex(&cb) } else { String::new() }).set("cr", if y.len() <= 65536 { crate::util::hex(&cr) } else { String::new() });
    let out = match catch(|| yuv420_to_rgba(&y, &cb, &cr, w)) {
        Ok(o) => o,
        Err(p) => {
            rep.violation(format!("panic@{}", p.loc), format!("{}x{} fill {}: {}", w, h, fill, p.msg), coords());
            return;
        }
    };
    if out.len() != 4 * w * h {
        rep.violation("length", format!("{}x{}: output has {} bytes, expected {}", w, h, out.len(), 4 * w * h), coords());
        return;
    }
    let body = w - w % 4;
    for j in 0..h {
        for i in 0..w {
            let want = convert_fixed(k, y[j * w + i], cb[(j / 2) * cw + i / 2], cr[(j / 2) * cw + i / 2]);
            let got = &out[4 * (j * w + i)..4 * (j * w + i) + 4];
            if got != want {
                let path = if i < body { "vector" } else { "remainder" };
                rep.violation(format!("pixel/{}/wmod4={}", path, w % 4), format!("{}x{} fill {}: pixel ({},{}) = {:?}, expected {:?} from Y={} Cb/Cr at ({},{})", w, h, fill, i, j, got, want, y[j * w + i], i / 2, j / 2), coords());
                return;
            }
        }
    }
    rep.add("vector_path_pixels", (body * h) as u64);
    rep.add("remainder_path_pixels", ((w - body) * h) as u64);
    rep.count(&format!("class:wmod4={}:hodd={}", w % 4, h % 2));
    rep.count("images_compared");
    rep.distinct.insert(fnv64(&[(w >> 8) as u8, w as u8, (h >> 8) as u8, h as u8, fill as u8]));
}

/// Call sequences on one thread: consecutive conversions share the plane lengths (transposed
/// shapes, other factorizations of the same area), sometimes the very same bytes; each plane is
/// a sub-slice at byte offset 0..3 of a larger buffer. Every pixel of every call is compared.
pub fn c08_sequence_case(ctx: &Ctx, k: usize, rep: &mut Report) {
    let kf = coef();
    let mut rng = Rng::new(ctx.seed ^ 0x5e9c08, k as u64);
    let lim = if ctx.miri() { 10 } else { 36 };
    let (w0, h0) = (1 + rng.below(lim) as usize, 1 + rng.below(lim) as usize);
    let area = w0 * h0;
    let mut shapes: Vec<(usize, usize)> = vec![(w0, h0), (h0, w0)];
    for d in 1..=area {
        if area % d == 0 {
            shapes.push((d, area / d));
        }
    }
    let n = if ctx.miri() { 3 } else { 3 + rng.below(5) as usize };
    let mut hist = String::new();
    let mut ybytes = vec![0u8; area];
    rng.fill(&mut ybytes);
    let mut cbytes = vec![0u8; 2 * area + 8];
    rng.fill(&mut cbytes);
    for i in 0..n {
        let upto = if rng.chance(2, 3) { 2 } else { shapes.len() };
        let (w, h) = if i > 0 && rng.chance(1, 6) { (1 + rng.below(30) as usize, 1 + rng.below(30) as usize) } else { *rng.pick(&shapes[..upto]) };
        let (cw, ch) = ((w + 1) / 2, (h + 1) / 2);
        if rng.chance(1, 2) {
            rng.fill(&mut ybytes);
            rng.fill(&mut cbytes);
        }
        let (oy, ob, or) = (rng.below(4) as usize, rng.below(4) as usize, rng.below(4) as usize);
        let mut ybuf = vec![0x11u8; oy + w * h];
        let mut bbuf = vec![0x22u8; ob + cw * ch];
        let mut rbuf = vec![0x33u8; or + cw * ch];
        for (i, v) in ybuf[oy..].iter_mut().enumerate() {
            *v = ybytes[i % ybytes.len()];
        }
        for (i, v) in bbuf[ob..].iter_mut().enumerate() {
            *v = cbytes[i % cbytes.len()];
        }
        for (i, v) in rbuf[or..].iter_mut().enumerate() {
            *v = cbytes[(i + cw * ch) % cbytes.len()];
        }
        hist.push_str(&format!("{}x{}@{}/{}/{} ", w, h, oy, ob, or));
        let coords = || J::obj().set("property", "C08").set("kind", "sequence").set("tier", ctx.tier_name()).set("seed", ctx.seed).set("stage", ctx.stage.clone()).set("k", k).set("what", format!("call {} of the sequence [{}]", i, hist.trim_end()));
        rep.evaluations += 1;
        // now and then one and the same slice serves as both chroma planes (nothing forbids it)
        let same_chroma = rng.chance(1, 5);
        if same_chroma {
            rbuf = bbuf.clone();
            rep.count("calls_with_one_slice_as_both_chroma_planes");
        }
        let or = if same_chroma { ob } else { or };
        let out = match catch(|| if same_chroma { yuv420_to_rgba(&ybuf[oy..], &bbuf[ob..], &bbuf[ob..], w) } else { yuv420_to_rgba(&ybuf[oy..], &bbuf[ob..], &rbuf[or..], w) }) {
            Ok(o) => o,
            Err(p) => {
                rep.violation(format!("panic@{}", p.loc), format!("call {} of the sequence [{}] panicked: {}", i, hist.trim_end(), p.msg), coords());
                return;
            }
        };
        if out.len() != 4 * w * h {
            rep.violation("sequence/length", format!("call {} of [{}]: {} bytes, expected {}", i, hist.trim_end(), out.len(), 4 * w * h), coords());
            return;
        }
        for j in 0..h {
            for x in 0..w {
                let want = convert_fixed(&kf, ybuf[oy + j * w + x], bbuf[ob + (j / 2) * cw + x / 2], rbuf[or + (j / 2) * cw + x / 2]);
                if out[4 * (j * w + x)..4 * (j * w + x) + 4] != want {
                    rep.violation("sequence/pixel", format!("call {} of the sequence [{}]: pixel ({},{}) = {:?}, expected {:?}", i, hist.trim_end(), x, j, &out[4 * (j * w + x)..4 * (j * w + x) + 4], want), coords());
                    return;
                }
            }
        }
        rep.count("sequence_calls_ok");
        if oy % 4 != 0 {
            rep.count("calls_with_unaligned_luma");
        }
    }
    rep.count("call_sequences");
    rep.distinct.insert(fnv64(hist.as_bytes()));
}

/// The three planes as windows of ONE buffer at arbitrary offsets: partially overlapping, nested (a chroma
/// window inside the luma window), adjacent or far apart. The planes are only read, so nothing forbids it
/// (a decoder that keeps a picture in one allocation, or a caller cropping, passes exactly this).
pub fn c08_window_case(ctx: &Ctx, k: usize, rep: &mut Report) {
    let kf = coef();
    let mut rng = Rng::new(ctx.seed ^ 0x77c08, k as u64);
    let lim = if ctx.miri() { 9 } else { 28 };
    let (w, h) = (1 + rng.below(lim) as usize, 1 + rng.below(lim) as usize);
    let (cw, ch) = ((w + 1) / 2, (h + 1) / 2);
    let (ly, lc) = (w * h, cw * ch);
    let mut buf = vec![0u8; ly + 2 * lc + 8];
    rng.fill(&mut buf);
    let oy = rng.below((buf.len() - ly + 1) as u64) as usize;
    let ob = rng.below((buf.len() - lc + 1) as u64) as usize;
    let (or, relation) = match rng.below(5) {
        0 => ((ob + 1).min(buf.len() - lc), "shifted-by-one"),
        1 => ((ob + lc).min(buf.len() - lc), "adjacent"),
        2 => (ob.saturating_sub(1 + rng.below(lc as u64) as usize), "overlapping-before"),
        3 => ((oy + rng.below(ly as u64) as usize).min(buf.len() - lc), "inside-luma"),
        _ => (rng.below((buf.len() - lc + 1) as u64) as usize, "anywhere"),
    };
    let what = format!("{}x{} planes at offsets {}/{}/{} of one {}-byte buffer ({})", w, h, oy, ob, or, buf.len(), relation);
    let coords = || J::obj().set("property", "C08").set("kind", "window").set("tier", ctx.tier_name()).set("seed", ctx.seed).set("stage", ctx.stage.clone()).set("k", k).set("what", what.clone());
    rep.evaluations += 1;
    let out = match catch(|| yuv420_to_rgba(&buf[oy..oy + ly], &buf[ob..ob + lc], &buf[or..or + lc], w)) {
        Ok(o) => o,
        Err(p) => {
            rep.violation(format!("panic@{}", p.loc), format!("{}: panicked: {}", what, p.msg), coords());
            return;
        }
    };
    if out.len() != 4 * w * h {
        rep.violation("window/length", format!("{}: {} bytes, expected {}", what, out.len(), 4 * w * h), coords());
        return;
    }
    for j in 0..h {
        for x in 0..w {
            let want = convert_fixed(&kf, buf[oy + j * w + x], buf[ob + (j / 2) * cw + x / 2], buf[or + (j / 2) * cw + x / 2]);
            if out[4 * (j * w + x)..4 * (j * w + x) + 4] != want {
                rep.violation("window/pixel", format!("{}: pixel ({},{}) = {:?}, expected {:?}", what, x, j, &out[4 * (j * w + x)..4 * (j * w + x) + 4], want), coords());
                return;
            }
        }
    }
    let overlap = |a: usize, la: usize, b: usize, lb: usize| a < b + lb && b < a + la && !(a == b && la == lb);
    if overlap(ob, lc, or, lc) || overlap(oy, ly, ob, lc) || overlap(oy, ly, or, lc) {
        rep.count("calls_with_partially_overlapping_planes");
    }
    rep.count(&format!("window_calls:{}", relation));
    rep.count("window_calls_ok");
}

fn c08_sequences(ctx: &Ctx) -> Report {
    let nw = if ctx.miri() { 32 } else { ctx.n(4000, 80000) as usize };
    let wreps = par_shards(64, ctx.threads, |sh| {
        let mut rep = Report::new();
        let mut k = sh;
        while k < nw {
            crate::mon::guarded(&mut rep, || J::obj().set("property", "C08").set("kind", "window").set("k", k), |rep| c08_window_case(ctx, k, rep));
            k += 64;
        }
        rep
    });
    let wrep = Report::merge_all(wreps);
    let n = if ctx.miri() { 16 } else { ctx.n(3000, 60000) as usize };
    let reps = par_shards(64, ctx.threads, |sh| {
        let mut rep = Report::new();
        let mut k = sh;
        while k < n {
            crate::mon::guarded(&mut rep, || J::obj().set("property", "C08").set("kind", "sequence").set("k", k), |rep| c08_sequence_case(ctx, k, rep));
            k += 64;
        }
        rep
    });
    let mut all = Report::merge_all(reps);
    all.merge(wrep);
    all
}

pub fn run_c08(ctx: &Ctx) -> (Report, String) {
    let k = coef();
    let maxd: usize = if ctx.stage == "miri" {
        13
    } else if ctx.tier == Tier::Quick {
        67
    } else {
        224
    };
    let maxd = (maxd as u64 * ctx.scale_pct.min(100) / 100).max(9) as usize;
    let reps = par_shards(maxd, ctx.threads, |s| {
        let w = s + 1;
        let mut rep = Report::new();
        let mut rng = Rng::new(ctx.seed ^ 0xC08, s as u64);
        crate::mon::guarded(&mut rep, || J::obj().set("property", "C08").set("w", w), |rep| {
            for h in 1..=maxd {
                for fill in (0..7).filter(|f| !ctx.miri() || *f == h % 7) {
                    c08_image(&k, &mut rng, w, h, fill, rep);
                }
            }
        });
        rep
    });
    let mut rep = Report::merge_all(reps);
    // strips, sizes around common formats, and the empty picture
    let mut rng = Rng::new(ctx.seed ^ 0xC08, 99999);
    let mut extra: Vec<(usize, usize)> = vec![];
    if ctx.stage != "miri" {
        for n in [255usize, 256, 257, 1023, 1024, 1025, 4095, 4096] {
            extra.push((n, 1));
            extra.push((1, n));
            extra.push((n, 2));
            extra.push((2, n));
            extra.push((3, n.min(1025)));
        }
        for (w, h) in [(176, 144), (352, 288), (320, 240), (351, 287), (353, 289), (640, 480)] {
            extra.push((w, h));
        }
        // boundary-value ladder: one dimension around powers of two up to 2^17, the other tiny
        for d in [8191usize, 8192, 8193, 16383, 16385, 32767, 32769, 65534, 65535, 65536, 65537, 131071, 131072, 131073, 262143, 262144, 262145, 524287, 524288, 524289, 1048575, 1048576, 1048577] {
            for s in [1usize, 2, 3] {
                extra.push((d, s));
                extra.push((s + 3, d));
            }
        }
        // genuinely two-dimensional large pictures (more than 2^20 pixels), fixed and random
        extra.extend([(1024, 1024), (2047, 1025), (1280, 720), (1920, 1080), (2051, 514), (1084, 971), (3, 349_530)]);
        for _ in 0..6 {
            extra.push((1000 + rng.below(1600) as usize, 420 + rng.below(700) as usize));
        }
        // widths and heights around 2^22 .. 2^24 (beyond what a 32-bit float counts exactly); native stages only
        if ctx.is_main() {
            extra.extend([(16_777_215, 1), (16_777_217, 1), (16_777_221, 3), (1, 16_777_217), (8_388_609, 1), (4_194_305, 3)]);
            if ctx.tier == Tier::Thorough {
                for d in [4_194_303usize, 8_388_607, 16_777_219, 16_777_225] {
                    extra.push((d, 1));
                    extra.push((d, 3));
                    extra.push((1, d));
                }
                extra.extend([(33_554_433, 1), (33_554_435, 2), (16_777_225, 4), (5, 16_777_217)]);
            }
        }
        if ctx.tier == Tier::Thorough {
            for (w, h) in [(1408, 1152), (1407, 1151), (1409, 3), (705, 577)] {
                extra.push((w, h));
            }
        }
    } else {
        extra.push((17, 3));
        extra.push((3, 17));
    }
    let er = par_shards(extra.len(), ctx.threads, |i| {
        let (w, h) = extra[i];
        let mut r = Report::new();
        let mut rng = Rng::new(ctx.seed ^ 0xC08E, i as u64);
        let fills: &[usize] = if w * h > (1 << 22) { &[0, 6] } else { &[0, 3, 5, 6] };
        for fill in fills {
            crate::mon::guarded(&mut r, || J::obj().set("property", "C08").set("kind", "image").set("w", w).set("h", h).set("fill", *fill), |r| c08_image(&k, &mut rng, w, h, *fill, r));
        }
        r.count("strips_and_formats");
        r
    });
    rep.merge(Report::merge_all(er));
    rep.merge(c08_sequences(ctx));
    if ctx.is_main() && ctx.scale_pct == 100 {
        rep.require("call_sequences", 2000);
        rep.require("calls_with_unaligned_luma", 2000);
        rep.require("calls_with_one_slice_as_both_chroma_planes", 1000);
        rep.require("calls_with_partially_overlapping_planes", 2000);
    }
    // the empty picture: documented shortcut; width 0 is the documented companion value
    match catch(|| yuv420_to_rgba(&[], &[], &[], 0)) {
        Ok(o) if o.is_empty() => rep.count("empty_picture_ok"),
        Ok(o) => rep.violation("empty", format!("empty picture produced {} bytes", o.len()), J::obj().set("property", "C08").set("kind", "empty")),
        Err(p) => rep.violation(format!("panic@{}", p.loc), format!("empty picture panicked: {}", p.msg), J::obj().set("property", "C08").set("kind", "empty")),
    }
    rep.evaluations += 1;
    rep.sample(4, || J::obj().set("sizes", format!("every (w,h) in 1..={} x 1..={}", maxd, maxd)).set("fills", "0 = uniform random, 1 = position-unique ramp (a shifted index changes the colour), 2 = extremes"));
    rep.exhaustive = Some(false);
    if ctx.is_main() && ctx.scale_pct == 100 {
        rep.require("images_compared", (maxd * maxd * 7) as u64);
        rep.require("remainder_path_pixels", 10000);
        rep.require("empty_picture_ok", 1);
    }
    (rep, rule_c08())
}

pub fn replay_c08(j: &J, rep: &mut Report) {
    if j.get("kind").and_then(|k| k.as_str()) == Some("sequence") {
        let ctx = Ctx { tier: if j.get("tier").and_then(|t| t.as_str()) == Some("thorough") { Tier::Thorough } else { Tier::Quick }, seed: j.get("seed").and_then(|v| v.as_i64()).unwrap_or(1) as u64, threads: 1, stage: j.get("stage").and_then(|v| v.as_str()).unwrap_or("chk").to_string(), scale_pct: 100 };
        c08_sequence_case(&ctx, j.get("k").and_then(|v| v.as_i64()).unwrap_or(0) as usize, rep);
        return;
    }
    if j.get("kind").and_then(|k| k.as_str()) == Some("window") {
        let ctx = Ctx { tier: if j.get("tier").and_then(|t| t.as_str()) == Some("thorough") { Tier::Thorough } else { Tier::Quick }, seed: j.get("seed").and_then(|v| v.as_i64()).unwrap_or(1) as u64, threads: 1, stage: j.get("stage").and_then(|v| v.as_str()).unwrap_or("chk").to_string(), scale_pct: 100 };
        c08_window_case(&ctx, j.get("k").and_then(|v| v.as_i64()).unwrap_or(0) as usize, rep);
        return;
    }
    let k = coef();
    let w = j.get("w").and_then(|v| v.as_i64()).unwrap_or(1) as usize;
    let h = j.get("h").and_then(|v| v.as_i64()).unwrap_or(1) as usize;
    let fill = j.get("fill").and_then(|v| v.as_i64()).unwrap_or(0) as usize;
    let plane = |n: &str| j.get(n).and_then(|v| v.as_str()).map(crate::util::unhex).unwrap_or_default();
    let (y, cb, cr) = (plane("y"), plane("cb"), plane("cr"));
    if y.len() == w * h && w * h > 0 && cb.len() == ((w + 1) / 2) * ((h + 1) / 2) && cr.len() == cb.len() {
        c08_planes(&k, y, cb, cr, w, h, fill, rep);
        return;
    }
    let mut rng = Rng::new(1, 1);
    c08_image(&k, &mut rng, w, h, fill, rep);
}
