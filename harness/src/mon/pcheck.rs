//! Shared machinery of the predicted-picture monitors (C03, C04, C12):
//! decode a reference with the real decoder, capture its actual planes, decode
//! a symbolic P picture on the same decoder and compare with the model's
//! one-step prediction from those actual planes.

use crate::gen::*;
use crate::model::recon::{compare, predict_mv, reconstruct, wrap_mv, Planes, Recon};
use crate::model::syntax::*;
use crate::sut::{Dec, Outcome};
use crate::util::Rng;

pub struct Fail {
    pub sig: String,
    pub detail: String,
}

/// Fraction of horizontally adjacent luma pairs that differ (texture score).
pub fn texture(p: &Planes) -> f64 {
    if p.w < 2 {
        return 1.0;
    }
    let mut d = 0u64;
    let mut n = 0u64;
    for y in 0..p.h {
        for x in 0..p.w - 1 {
            n += 1;
            if p.y[y * p.w + x] != p.y[y * p.w + x + 1] {
                d += 1;
            }
        }
    }
    d as f64 / n.max(1) as f64
}

/// Generate a textured reference picture, decode it on a fresh decoder and
/// return the decoder plus the planes it actually produced.
pub fn fresh_reference(rng: &mut Rng, cfg: &PicCfg) -> Result<(Dec, Planes, Vec<u8>), Fail> {
    let mut last: Option<(Dec, Planes, Vec<u8>)> = None;
    for _ in 0..3 {
        let pic = gen_reference(rng, cfg);
        let bytes = pic.encode();
        let mut dec = Dec::new(cfg.flavour.sorenson(), cfg.flavour.sorenson() && rng.chance(1, 4));
        match dec.decode(&bytes) {
            Outcome::Ok => {}
            o => return Err(Fail { sig: format!("reference-decode/{}", o.short()), detail: format!("reference intra picture {}x{} ({}) did not decode: {}", cfg.w, cfg.h, cfg.flavour.name(), o.short()) }),
        }
        let planes = dec.planes().ok_or(Fail { sig: "reference-decode/no-picture".into(), detail: "no picture after Ok".into() })?;
        let good = texture(&planes) > 0.5;
        last = Some((dec, planes, bytes));
        if good {
            break;
        }
    }
    Ok(last.unwrap())
}

/// Decode `pic` on `dec` (whose current reference has planes `refp`) and compare.
pub fn check_inter(dec: &mut Dec, refp: &Planes, pic: &SymPicture, bytes: &[u8]) -> Result<(Recon, Planes, u64), Fail> {
    let rec = reconstruct(pic, Some(refp)).map_err(|e| Fail { sig: "generator-invalid".into(), detail: e })?;
    let out = dec.decode(bytes);
    let fl = if pic.sorenson() { "sorenson" } else { "std" };
    match out {
        Outcome::Ok => {}
        Outcome::Panic { msg, loc } => return Err(Fail { sig: format!("panic@{}", loc), detail: format!("valid predicted picture {}x{} panicked: {}", pic.w, pic.h, msg) }),
        Outcome::Err(k) => return Err(Fail { sig: format!("error/{}/{}", fl, k), detail: format!("valid predicted picture {}x{} ({}) rejected with {}", pic.w, pic.h, fl, k) }),
    }
    let got = dec.planes().ok_or(Fail { sig: "no-picture".into(), detail: "no picture after Ok".into() })?;
    if got.w != pic.w || got.h != pic.h {
        return Err(Fail { sig: "size".into(), detail: format!("signalled {}x{} reported {}x{}", pic.w, pic.h, got.w, got.h) });
    }
    let (mis, tol) = compare(&rec, &got.y, &got.cb, &got.cr);
    if let Some(m) = mis {
        // locate the macroblock for the report
        let plane = m.split_whitespace().nth(1).unwrap_or("?").to_string();
        return Err(Fail { sig: format!("mismatch/{}/{}", fl, plane), detail: format!("{}x{}: {}", pic.w, pic.h, m) });
    }
    Ok((rec, got, tol))
}

/// Differentials (in -32..=31) that make the decoder reconstruct exactly `target`
/// for macroblock `i`, given the vectors of the earlier macroblocks.
pub fn diffs_for(mvs: &[[[i32; 2]; 4]], i: usize, mbw: usize, target: &[[i32; 2]; 4], four: bool) -> [[i32; 2]; 4] {
    let mut cur = [[0i32; 2]; 4];
    let mut out = [[0i32; 2]; 4];
    for blk in 0..if four { 4 } else { 1 } {
        let p = predict_mv(mvs, &cur, i, mbw, blk);
        for c in 0..2 {
            let mut d = target[blk][c] - p[c];
            if d < -32 {
                d += 64;
            } else if d > 31 {
                d -= 64;
            }
            out[blk][c] = d;
            debug_assert_eq!(wrap_mv(p[c] + d), target[blk][c]);
        }
        cur[blk] = target[blk];
    }
    out
}
