//! C17 - decoding is deterministic and decoder instances are independent.
//! Replica comparison: the same histories are decoded single-threaded (baseline), in
//! fresh processes, and by many instances interleaved on many threads with seed-driven
//! delays; every call's (outcome, header, planes) digest must equal the baseline.
//! The race detectors (Miri, ThreadSanitizer) run this same workload in their own stages.

use super::c04::{failing_input, vector_field_picture};
use crate::gen::*;
use crate::json::J;
use crate::report::Report;
use crate::sut::{Dec, Outcome};
use crate::util::{fnv64, fnv64_more, hex, Rng};
use crate::{Ctx, Tier};
use std::collections::HashSet;
use std::sync::atomic::{AtomicU64, Ordering};
use std::sync::Mutex;

pub fn rule() -> String {
    "cases = (history of 3-10 inputs incl. failing ones, decoder options) replicated on R decoder instances spread over T threads (T in {2,4,16}); each thread owns several instances with different histories and interleaves calls among them with seed-driven yields/spins; every call's digest of (outcome, header, planes) is compared with a single-threaded baseline, with a second in-process baseline pass and with two fresh processes; an evaluation = one replica of one history; distinct = distinct (history, thread-count, interleaving signature) triples observed; non-trivial = the replica overlapped in time with a call on another instance (measured with a global ticket counter)".into()
}

#[derive(Clone)]
pub struct Hist {
    sorenson: bool,
    calls: Vec<Vec<u8>>,
}

pub fn make_histories(seed: u64, n: usize) -> Vec<Hist> {
    make_histories_sized(seed, n, 72, 8)
}

pub fn make_histories_sized(seed: u64, n: usize, maxdim: usize, maxextra: u64) -> Vec<Hist> {
    let mut out = vec![];
    for i in 0..n {
        let mut rng = Rng::new(seed ^ 0xC17, i as u64);
        let sorenson = rng.chance(2, 3);
        let flavour = if sorenson { Flavour::Sor(rng.below(2) as u8) } else { Flavour::StdPlus };
        let (w, h) = gen_size(&mut rng, maxdim);
        let (mut w, mut h) = if sorenson { (w, h) } else { (((w + 3) / 4 * 4).clamp(4, 2048), ((h + 3) / 4 * 4).clamp(4, 1152)) };
        // one history in sixteen is long (hundreds of calls on small pictures)
        let long_history = maxextra >= 8 && i % 16 == 5;
        if long_history {
            w = 16 + 4 * (i % 3);
            h = 16;
        }
        let len = if long_history { 320 + rng.below(200) as usize } else { 3 + rng.below(maxextra) as usize };
        let mut calls = vec![];
        let mut have_ref = false;
        let mut tr = rng.byte();
        // temporal references: increasing, all equal, or drawn from two values (so that disposable
        // pictures share the reference's number: storage keyed by it must still be unambiguous)
        let tr_policy = rng.below(4);
        let tr0 = tr;
        for _ in 0..len {
            tr = match tr_policy {
                0 | 1 => tr.wrapping_add(1),
                2 => tr0,
                _ => tr0.wrapping_add(rng.below(2) as u8),
            };
            let mut cfg = gen_cfg(&mut rng, flavour, w, h);
            cfg.tr = tr;
            // before any intra picture: predicted pictures that find no reference (and, in standard mode,
            // no picture format either when they do not restate it) - what such a call answers must not
            // depend on what other decoder instances of the process have seen
            if !have_ref && rng.chance(1, 3) {
                let mut p = if rng.chance(1, 2) {
                    let mut q = gen_intra(&mut rng, &cfg);
                    match &mut q.hdr {
                        crate::model::syntax::Hdr::Sor(hd) => hd.ptype = 1 + rng.below(2) as u8,
                        crate::model::syntax::Hdr::Std(hd) => {
                            hd.inter = true;
                            if let Some(pl) = hd.plus.as_mut() {
                                pl.ptype = 1;
                            }
                        }
                    }
                    q
                } else {
                    gen_inter(&mut rng, &cfg, &InterCfg { ptype: 0, big_vectors_pct: 20, residual_pct: 30, truncate: None, allow_q: true })
                };
                if rng.chance(2, 3) {
                    drop_format(&mut p);
                }
                calls.push(p.encode());
                continue;
            }
            match rng.below(12) {
                0 => calls.push(failing_input(&mut rng, &cfg)),
                10 | 11 => {
                    // a picture with an invalid macroblock header / coded-block pattern at a random macroblock
                    // (drives the error-recovery paths, which differ between the two bitstream flavours)
                    let mut p = if have_ref && rng.chance(1, 2) {
                        gen_inter(&mut rng, &cfg, &InterCfg { ptype: 0, big_vectors_pct: 20, residual_pct: 30, truncate: None, allow_q: true })
                    } else {
                        gen_intra(&mut rng, &cfg)
                    };
                    let intra_pic = p.is_intra_picture();
                    let m = rng.below(p.mbs.len().max(1) as u64) as usize;
                    if !p.mbs.is_empty() {
                        p.mbs[m] = if rng.chance(1, 2) {
                            crate::model::syntax::SymMb::Raw(vec![(0, if intra_pic { 9 } else { 10 }), (0x2aa, 10)])
                        } else {
                            let mut g = vec![];
                            if !intra_pic {
                                g.push((0, 1));
                                g.push(crate::model::tables::MCBPC_P[0][0]);
                            } else {
                                g.push(crate::model::tables::MCBPC_I[0][0]);
                            }
                            g.push((0b000001, 6));
                            crate::model::syntax::SymMb::Raw(g)
                        };
                    }
                    calls.push(p.encode());
                }
                1 | 2 if have_ref => {
                    let disp = sorenson && rng.chance(1, 2);
                    calls.push(vector_field_picture(&mut rng, &cfg, disp).encode());
                }
                3..=6 if have_ref => {
                    let ic = InterCfg { ptype: 0, big_vectors_pct: 40, residual_pct: 60, truncate: if rng.chance(1, 5) { Some(rng.below(6) as usize) } else { None }, allow_q: true };
                    let mut p = gen_inter(&mut rng, &cfg, &ic);
                    if rng.chance(1, 3) {
                        drop_format(&mut p);
                    }
                    calls.push(p.encode());
                }
                _ => {
                    if have_ref && rng.chance(1, 3) {
                        let s = gen_size(&mut rng, maxdim);
                        (w, h) = if sorenson { s } else { (((s.0 + 3) / 4 * 4).clamp(4, 2048), ((s.1 + 3) / 4 * 4).clamp(4, 1152)) };
                        cfg.w = w;
                        cfg.h = h;
                    }
                    calls.push(gen_intra(&mut rng, &cfg).encode());
                    have_ref = true;
                }
            }
        }
        out.push(Hist { sorenson, calls });
    }
    out
}

fn digest_call(dec: &Dec, out: &Outcome) -> u64 {
    let mut h = fnv64(out.short().as_bytes());
    if let Some((hv, p, crow)) = dec.snapshot() {
        h = fnv64_more(h, format!("{:?}{}", hv, crow).as_bytes());
        h = fnv64_more(h, &p.y);
        h = fnv64_more(h, &p.cb);
        h = fnv64_more(h, &p.cr);
    }
    h
}

pub fn baseline(hists: &[Hist]) -> Vec<Vec<u64>> {
    hists
        .iter()
        .map(|h| {
            let mut dec = Dec::new(h.sorenson, false);
            h.calls
                .iter()
                .map(|c| {
                    let o = dec.decode(c);
                    digest_call(&dec, &o)
                })
                .collect()
        })
        .collect()
}

fn digest_string(b: &[Vec<u64>]) -> String {
    let mut h = 0u64;
    for v in b {
        for d in v {
            h = fnv64_more(h, &d.to_le_bytes());
        }
    }
    format!("{:016x}", h)
}

/// `hv digest17 <seed> <n>`: prints the baseline digest computed in this fresh process.
pub fn digest_main(args: &[String]) -> i32 {
    let seed: u64 = args.first().and_then(|s| s.parse().ok()).unwrap_or(1);
    let n: usize = args.get(1).and_then(|s| s.parse().ok()).unwrap_or(8);
    let hists = make_histories(seed, n);
    if let Some(k) = args.get(2).and_then(|s| s.parse::<usize>().ok()) {
        // isolated baseline: this process decodes history k only
        let b = baseline(&hists[k..k + 1]);
        println!("{}", b[0].iter().map(|d| format!("{:016x}", d)).collect::<Vec<_>>().join(","));
        return 0;
    }
    println!("{}", digest_string(&baseline(&hists)));
    0
}

/// Cold start under contention (run in a fresh process): for every quantiser 1..=31 and both Sorenson
/// versions, T fresh decoder instances on T threads decode the same coefficient-rich intra picture at the
/// same moment (spin barrier) - the first use of whatever the code initialises lazily, per quantiser, per
/// table, per size class, happens concurrently. Afterwards every picture is decoded once more on one
/// thread; any thread's result that differs from that is printed and the process exits with 1.
pub fn coldstart_main(args: &[String]) -> i32 {
    use std::sync::atomic::AtomicUsize;
    let seed: u64 = args.first().and_then(|s| s.parse().ok()).unwrap_or(1);
    let t: usize = args.get(1).and_then(|s| s.parse().ok()).unwrap_or(8);
    let mut pics: Vec<(bool, Vec<u8>, String)> = vec![];
    let mut rng = Rng::new(seed ^ 0xC17C01D, 0);
    for q in 1..=31u8 {
        for v in 0..2u8 {
            let mut cfg = gen_cfg(&mut rng, Flavour::Sor(v), 16 + 16 * (q as usize % 3), 16);
            cfg.quant = q;
            cfg.wide_levels = true;
            pics.push((true, gen_reference(&mut rng, &cfg).encode(), format!("sorenson v{} q={}", v, q)));
        }
        if q % 4 == 1 {
            let mut cfg = gen_cfg(&mut rng, Flavour::StdPlus, 32, 16);
            cfg.quant = q;
            pics.push((false, gen_reference(&mut rng, &cfg).encode(), format!("standard q={}", q)));
        }
    }
    let arrived = AtomicUsize::new(0);
    let results: Mutex<Vec<(usize, usize, u64)>> = Mutex::new(vec![]);
    std::thread::scope(|s| {
        for th in 0..t {
            let (pics, arrived, results) = (&pics, &arrived, &results);
            s.spawn(move || {
                let mut local = vec![];
                for (k, (sor, bytes, _)) in pics.iter().enumerate() {
                    let mut d = Dec::new(*sor, false);
                    arrived.fetch_add(1, Ordering::SeqCst);
                    while arrived.load(Ordering::SeqCst) < t * (k + 1) {
                        std::hint::spin_loop();
                    }
                    let o = d.decode(bytes);
                    local.push((k, th, digest_call(&d, &o)));
                }
                results.lock().unwrap().extend(local);
            });
        }
    });
    let mut bad = 0;
    let res = results.into_inner().unwrap();
    for (k, (sor, bytes, what)) in pics.iter().enumerate() {
        let mut d = Dec::new(*sor, false);
        let o = d.decode(bytes);
        let want = digest_call(&d, &o);
        for (kk, th, got) in res.iter() {
            if *kk == k && *got != want {
                println!("MISMATCH picture {} ({}): thread {} of {} decoded it differently at first use than a later single-threaded decode", k, what, th, t);
                bad += 1;
            }
        }
    }
    println!("coldstart: {} pictures x {} threads, {} mismatches", pics.len(), t, bad);
    if bad > 0 {
        1
    } else {
        0
    }
}

fn tiny(rng: &mut Rng, ptype: u8, tr: u8, w: usize, h: usize) -> Vec<u8> {
    let mut cfg = crate::mon::ladder::cfg_for(rng, Flavour::Sor(0), w, h, 0);
    cfg.tr = tr;
    match ptype {
        0 => crate::mon::ladder::large_intra(rng, &cfg).encode(),
        1 => vector_field_picture(rng, &cfg, false).encode(),
        _ => vector_field_picture(rng, &cfg, true).encode(),
    }
}

fn ladder(ctx: &Ctx, rep: &mut Report) {
    let mut rng = Rng::new(ctx.seed ^ 0xC17AD, 0);
    // victim history: I, D, P, D, P on 32x32; between any two of its calls another instance decodes N pictures
    let victim: Vec<Vec<u8>> = [0u8, 2, 1, 2, 1].iter().enumerate().map(|(i, t)| tiny(&mut rng, *t, 10 + i as u8, 32, 32)).collect();
    let solo: Vec<u64> = {
        let mut d = Dec::new(true, false);
        victim.iter().map(|c| { let o = d.decode(c); digest_call(&d, &o) }).collect()
    };
    let other_i = tiny(&mut rng, 0, 1, 16, 16);
    let other_p = tiny(&mut rng, 1, 2, 16, 16);
    let other_d = tiny(&mut rng, 2, 3, 16, 16);
    for n in [255usize, 256, 257, 65534, 65535, 65536, 65537] {
        for gap in 0..4usize {
            let mut v = Dec::new(true, false);
            let mut o = Dec::new(true, false);
            o.decode(&other_i);
            let mut ok = true;
            for (i, c) in victim.iter().enumerate() {
                let out = v.decode(c);
                if digest_call(&v, &out) != solo[i] {
                    rep.violation("ladder/interleaved-long-run", format!("victim history call {} differs from its solo run when another instance decodes {} pictures after the victim's call {}", i, n, gap), J::obj().set("property", "C17").set("seed", ctx.seed).set("kind", "ladder"));
                    ok = false;
                    break;
                }
                if i == gap {
                    // the other instance decodes exactly n pictures (mix of P and D) in between
                    for j in 0..n {
                        o.decode(if j % 2 == 0 { &other_p } else { &other_d });
                    }
                }
            }
            rep.evaluations += 1;
            if ok {
                rep.count("ladder_long_interleavings_equal");
            }
        }
    }
    // static scenes padded with stuffing: two instances take turns decoding predicted pictures that consist
    // of stuffing codes and not-coded macroblocks only (no coded macroblock anywhere), until the stuffing
    // codes seen by the process add up to far more than 2^16. Every call must succeed and repeat the picture.
    for (per_picture, pictures) in [(700usize, 8usize), (3000, 6), (3000, 50)] {
        let mut decs = [Dec::new(true, false), Dec::new(true, false)];
        let cfg = crate::mon::ladder::cfg_for(&mut rng, Flavour::Sor(0), 32, 32, 0);
        let key = crate::mon::ladder::large_intra(&mut rng, &cfg).encode();
        let mut want = vec![];
        let mut ok = true;
        for d in decs.iter_mut() {
            if d.decode(&key) != Outcome::Ok {
                ok = false;
            }
            want.push(d.planes());
        }
        let mut total = 0usize;
        'outer: for i in 0..pictures {
            let mut c = cfg.clone();
            c.tr = cfg.tr.wrapping_add(1 + i as u8);
            let hdr = make_header(&c, 1, &mut rng);
            let mut groups: Vec<(u32, u32)> = Vec::with_capacity(2 * per_picture);
            for _ in 0..per_picture {
                groups.push((0, 1));
                groups.push((1, 9));
            }
            let mut mbs = vec![crate::model::syntax::SymMb::Raw(groups)];
            mbs.extend((0..4).map(|_| crate::model::syntax::SymMb::NotCoded));
            let pic = crate::model::syntax::SymPicture { hdr, w: 32, h: 32, mbs, stuffing: vec![] }.encode();
            for (k, d) in decs.iter_mut().enumerate() {
                let out = d.decode(&pic);
                total += per_picture;
                if out != Outcome::Ok || d.planes() != want[k] {
                    rep.violation("ladder/static-stuffed-scenes", format!("instance {} call {}: a predicted picture of {} stuffing codes and four not-coded macroblocks gave {} (picture repeated: {}) after the process had parsed {} stuffing codes without a coded macroblock", k, i, per_picture, out.short(), d.planes() == want[k], total), J::obj().set("property", "C17").set("seed", ctx.seed).set("kind", "ladder"));
                    ok = false;
                    break 'outer;
                }
            }
        }
        rep.evaluations += 1;
        if ok {
            rep.count("ladder_static_stuffed_scenes_equal");
            rep.add("ladder_stuffing_codes_parsed", total as u64);
        }
    }
    // one reader probed by two differently configured instances: what instance B decodes from a reader must not
    // depend on an earlier (failed) attempt of instance A on the same reader - state belongs to instances, and a
    // failed call leaves the reader where it was
    for k in 0..24u64 {
        let mut r2 = Rng::new(ctx.seed ^ 0xC17AE, k);
        let v = (k % 2) as u8;
        let cfg = gen_cfg(&mut r2, Flavour::Sor(v), 16 + 16 * (k as usize % 3), 16 + 16 * (k as usize % 2));
        let pic = gen_reference(&mut r2, &cfg).encode();
        let mut fresh = Dec::new(true, false);
        let of = fresh.decode(&pic);
        let want = digest_call(&fresh, &of);
        let mut a = Dec::new(false, k % 4 >= 2);
        let mut b = Dec::new(true, false);
        let r = crate::util::catch(|| {
            let mut rd = h263_rs::parser::H263Reader::from_source(&pic[..]);
            let oa = a.decode_with(&mut rd);
            let ob = b.decode_with(&mut rd);
            (oa, ob)
        });
        rep.evaluations += 1;
        match r {
            Err(p) => rep.violation(format!("panic@{}", p.loc), format!("shared reader probed by two instances panicked: {}", p.msg), J::obj().set("property", "C17").set("seed", ctx.seed).set("kind", "ladder")),
            Ok((oa, ob)) => {
                if digest_call(&b, &ob) != want {
                    rep.violation("ladder/reader-probed-by-another-instance", format!("a Sorenson v{} picture decodes to something else ({}) when a standard-mode instance has tried the same reader first (its attempt: {})", v, ob.short(), oa.short()), J::obj().set("property", "C17").set("seed", ctx.seed).set("kind", "ladder"));
                } else {
                    rep.count("ladder_reader_probed_by_another_instance_equal");
                }
            }
        }
    }
    // a source that is slow: one read call sleeps for 2.6 s in the middle of a picture (decoding is a function of
    // the bytes, not of how long they take to arrive)
    {
        let mut r2 = Rng::new(ctx.seed ^ 0xC17AF, 0);
        let cfg = gen_cfg(&mut r2, Flavour::Sor(1), 48, 32);
        let pic = gen_reference(&mut r2, &cfg).encode();
        let mut fresh = Dec::new(true, false);
        let of = fresh.decode(&pic);
        let want = digest_call(&fresh, &of);
        struct Slow<'a> {
            d: &'a [u8],
            pos: usize,
            slept: bool,
        }
        impl std::io::Read for Slow<'_> {
            fn read(&mut self, buf: &mut [u8]) -> std::io::Result<usize> {
                if !self.slept && self.pos >= self.d.len() / 2 {
                    self.slept = true;
                    std::thread::sleep(std::time::Duration::from_millis(2600));
                }
                let n = buf.len().min(self.d.len() - self.pos).min(3);
                buf[..n].copy_from_slice(&self.d[self.pos..self.pos + n]);
                self.pos += n;
                Ok(n)
            }
        }
        let mut s = Dec::new(true, false);
        let r = crate::util::catch(|| {
            let mut rd = h263_rs::parser::H263Reader::from_source(Slow { d: &pic, pos: 0, slept: false });
            s.decode_with(&mut rd)
        });
        rep.evaluations += 1;
        match r {
            Ok(o) if digest_call(&s, &o) == want => rep.count("ladder_slow_source_equal"),
            Ok(o) => rep.violation("ladder/slow-source", format!("the same bytes through a source that pauses for 2.6 s in the middle give {} instead of {}", o.short(), of.short()), J::obj().set("property", "C17").set("seed", ctx.seed).set("kind", "ladder")),
            Err(p) => rep.violation(format!("panic@{}", p.loc), format!("slow source panicked: {}", p.msg), J::obj().set("property", "C17").set("seed", ctx.seed).set("kind", "ladder")),
        }
    }
    // bystanders holding large pictures alive while a victim decodes
    // "fill to the brim": bystanders of decreasing picture size are added until one is refused (a
    // process-wide budget would refuse at some point) or a cap is reached (a correct decoder never refuses)
    let mut bystanders: Vec<Dec> = vec![];
    for (w, h, cap) in [(4096usize, 2048usize, 12usize), (1024, 1024, 48), (256, 256, 128), (64, 64, 512), (16, 16, 4096)] {
        let cfg = crate::mon::ladder::cfg_for(&mut rng, Flavour::Sor(1), w, h, 0);
        let pic = crate::mon::ladder::large_intra(&mut rng, &cfg).encode();
        for _ in 0..cap {
            let mut b = Dec::new(true, false);
            if b.decode(&pic) != Outcome::Ok {
                rep.count("ladder_bystander_refused");
                break;
            }
            bystanders.push(b);
        }
    }
    rep.add("ladder_bystanders_alive", bystanders.len() as u64);
    let mut v = Dec::new(true, false);
    let mut ok = true;
    for (i, c) in victim.iter().enumerate() {
        let out = v.decode(c);
        if digest_call(&v, &out) != solo[i] {
            rep.violation("ladder/bystanders-holding-large-pictures", format!("victim history call {} gives {} while {} other instances hold decoded pictures (largest 4096x2048), and something else when alone", i, out.short(), bystanders.len()), J::obj().set("property", "C17").set("seed", ctx.seed).set("kind", "ladder"));
            ok = false;
            break;
        }
    }
    rep.evaluations += 1;
    if ok {
        rep.count("ladder_bystanders_equal");
    }
    drop(bystanders);
}

struct Event {
    thread: usize,
    replica: usize,
    start: u64,
    end: u64,
}

pub fn run(ctx: &Ctx) -> (Report, String) {
    let mut rep = Report::new();
    let miri = ctx.stage == "miri";
    let n_hist = if miri { 1 } else { ctx.n(24, 96) as usize };
    let hists = if miri { make_histories_sized(ctx.seed, n_hist, 16, 1) } else { make_histories(ctx.seed, n_hist) };
    let base = baseline(&hists);
    let base_s = digest_string(&base);
    // determinism within the process: a second single-threaded pass
    if !miri && digest_string(&baseline(&hists)) != base_s {
        rep.violation("nondeterministic/same-thread", "two single-threaded passes over the same histories gave different digests".to_string(), J::obj().set("property", "C17").set("seed", ctx.seed));
    }
    rep.count("baseline_passes");
    // determinism across processes
    if !miri {
        for k in 0..2 {
            match std::process::Command::new(std::env::current_exe().unwrap()).args(["digest17", &ctx.seed.to_string(), &n_hist.to_string()]).output() {
                Ok(o) if o.status.success() => {
                    let s = String::from_utf8_lossy(&o.stdout).trim().to_string();
                    if s != base_s {
                        rep.violation("nondeterministic/across-processes", format!("fresh process {} computed digest {} but this process {}", k, s, base_s), J::obj().set("property", "C17").set("seed", ctx.seed));
                    } else {
                        rep.count("fresh_process_digests_equal");
                    }
                }
                other => rep.inconclusive.push(format!("could not run the digest subprocess: {:?}", other.map(|o| o.status))),
            }
        }
    }
    // isolation: every history decoded alone in its own fresh process must give what the in-process
    // pass gave while other instances (of both bitstream flavours) had been active before it
    if !miri {
        let exe = std::env::current_exe().unwrap();
        let iso: Vec<Option<Vec<u64>>> = crate::util::par_shards(n_hist, ctx.threads, |k| {
            let o = std::process::Command::new(&exe).args(["digest17", &ctx.seed.to_string(), &n_hist.to_string(), &k.to_string()]).output().ok()?;
            if !o.status.success() {
                return None;
            }
            String::from_utf8_lossy(&o.stdout).trim().split(',').map(|h| u64::from_str_radix(h, 16).ok()).collect()
        });
        for (k, v) in iso.iter().enumerate() {
            match v {
                None => rep.inconclusive.push(format!("isolated baseline process for history {} failed", k)),
                Some(d) if *d != base[k] => {
                    let call = d.iter().zip(base[k].iter()).position(|(a, b)| a != b).unwrap_or(0);
                    rep.violation(
                        "instance-influence/isolated-vs-in-process",
                        format!("history {} (sorenson={}) call {}: decoded alone in a fresh process it gives a different result than in a process where other decoder instances had run before it; input {}", k, hists[k].sorenson, call, hex(&hists[k].calls[call][..hists[k].calls[call].len().min(32)])),
                        J::obj().set("property", "C17").set("seed", ctx.seed).set("history", k),
                    );
                }
                Some(_) => rep.count("isolated_baselines_equal"),
            }
        }
        // and in reverse order within this process (an order-dependent cache shows here too)
        let rev: Vec<Hist> = hists.iter().rev().cloned().collect();
        let mut b2 = baseline(&rev);
        b2.reverse();
        if b2 != base {
            rep.violation("instance-influence/order-dependent", "decoding the histories in reverse order on fresh instances changed some results".to_string(), J::obj().set("property", "C17").set("seed", ctx.seed));
        } else {
            rep.count("reverse_order_pass_equal");
        }
    }
    // boundary ladder: an instance's history interleaved with a *long* run of pictures on another
    // instance (process-wide counters that wrap after 2^8 / 2^16 events), and with bystander
    // instances that keep large pictures alive (process-wide budgets)
    if !miri && ctx.is_main() {
        ladder(ctx, &mut rep);
        // cold starts under contention, each in a fresh process (lazy initialisation happens once per process)
        let runs = ctx.n(12, 100);
        for r in 0..runs {
            let threads = [8usize, 16, 4][(r % 3) as usize];
            rep.evaluations += 1;
            match std::process::Command::new(std::env::current_exe().unwrap()).args(["coldstart", &(ctx.seed + r).to_string(), &threads.to_string()]).output() {
                Ok(o) if o.status.code() == Some(0) => rep.count("cold_start_processes_equal"),
                Ok(o) if o.status.code() == Some(1) => {
                    let out = String::from_utf8_lossy(&o.stdout);
                    let first = out.lines().find(|l| l.starts_with("MISMATCH")).unwrap_or("").to_string();
                    rep.violation("cold-start/concurrent-first-use", format!("fresh process, {} threads decoding the same pictures at the same moment: {}", threads, first), J::obj().set("property", "C17").set("seed", ctx.seed).set("kind", "coldstart").set("run", r));
                }
                Ok(o) => rep.violation("cold-start/process-died", format!("cold-start process ended with {:?}: {}", o.status, String::from_utf8_lossy(&o.stderr).chars().take(300).collect::<String>()), J::obj().set("property", "C17").set("seed", ctx.seed).set("kind", "coldstart").set("run", r)),
                Err(e) => rep.inconclusive.push(format!("could not start the cold-start process: {}", e)),
            }
        }
        rep.require("cold_start_processes_equal", runs * 9 / 10);
    }
    // concurrent replicas
    let rounds = if miri { 1 } else { ctx.n(200, 3000) };
    let thread_counts: &[usize] = if miri { &[3] } else { &[2, 4, 16] };
    let ticket = AtomicU64::new(0);
    let mut signatures: HashSet<u64> = HashSet::new();
    let mut overlapping_pairs = 0u64;
    for round in 0..rounds {
        let t = thread_counts[(round as usize) % thread_counts.len()];
        let per_thread = if miri { 1 } else { 3 };
        let events: Mutex<Vec<Event>> = Mutex::new(vec![]);
        let bad: Mutex<Vec<(usize, usize, usize, usize)>> = Mutex::new(vec![]);
        // all threads of a round start decoding together, so that their calls really overlap
        let gate = std::sync::Barrier::new(t);
        std::thread::scope(|s| {
            for th in 0..t {
                let gate = &gate;
                let hists = &hists;
                let base = &base;
                let ticket = &ticket;
                let events = &events;
                let bad = &bad;
                let seed = ctx.seed;
                s.spawn(move || {
                    let mut rng = Rng::new(seed ^ 0xC17C, (round << 16) | th as u64);
                    // this thread's instances: (history id, decoder, next call)
                    let mut inst: Vec<(usize, Dec, usize)> = (0..per_thread)
                        .map(|_| {
                            let hid = rng.below(hists.len() as u64) as usize;
                            // how the bytes reach the instance varies from replica to replica (all at once, a few per
                            // read call, with `Interrupted` answers, with a transient error and a repeated call, or
                            // late: the first bytes of each picture now, the rest after the call failed for lack of
                            // data); the baseline was decoded from plain slices
                            let mut d = Dec::new(hists[hid].sorenson, false);
                            match rng.below(6) {
                                0 => d.chunk = 1 + rng.below(7) as usize,
                                1 => {
                                    d.chunk = 1 + rng.below(3) as usize;
                                    d.interrupt_every = 2 + rng.below(4) as usize;
                                }
                                2 => d.stall = Some((rng.below(1001) as usize, rng.below(3) as u8)),
                                3 => d.trickle = Some(1 + rng.below(6) as usize),
                                _ => {}
                            }
                            (hid, d, 0usize)
                        })
                        .collect();
                    let mut local: Vec<Event> = vec![];
                    gate.wait();
                    loop {
                        let live: Vec<usize> = (0..inst.len()).filter(|i| inst[*i].2 < hists[inst[*i].0].calls.len()).collect();
                        if live.is_empty() {
                            break;
                        }
                        let i = live[rng.below(live.len() as u64) as usize];
                        // seed-driven delay to diversify schedules
                        match rng.below(4) {
                            0 => std::thread::yield_now(),
                            1 => {
                                let spins = rng.below(2000);
                                for _ in 0..spins {
                                    std::hint::spin_loop();
                                }
                            }
                            _ => {}
                        }
                        let (hid, dec, k) = &mut inst[i];
                        let start = ticket.fetch_add(1, Ordering::SeqCst);
                        let o = dec.decode(&hists[*hid].calls[*k]);
                        let d = digest_call(dec, &o);
                        let end = ticket.fetch_add(1, Ordering::SeqCst);
                        if d != base[*hid][*k] {
                            bad.lock().unwrap().push((th, i, *hid, *k));
                        }
                        local.push(Event { thread: th, replica: th * 100 + i, start, end });
                        *k += 1;
                    }
                    events.lock().unwrap().extend(local);
                });
            }
        });
        let evs = events.into_inner().unwrap();
        let bad = bad.into_inner().unwrap();
        for (th, i, hid, k) in bad.iter().take(3) {
            rep.violation(
                "replica-differs",
                format!("round {} ({} threads): thread {} instance {} history {} call {} produced a different digest than the single-threaded baseline; input {}", round, t, th, i, hid, k, hex(&hists[*hid].calls[*k][..hists[*hid].calls[*k].len().min(32)])),
                J::obj().set("property", "C17").set("seed", ctx.seed).set("round", round).set("threads", t),
            );
        }
        // interleaving signature: thread ids in start order
        let mut order: Vec<(u64, usize)> = evs.iter().map(|e| (e.start, e.thread)).collect();
        order.sort();
        let sig = fnv64(&order.iter().map(|o| o.1 as u8).collect::<Vec<u8>>());
        signatures.insert(sig ^ (t as u64) << 56);
        // overlapping call pairs (different threads, intervals intersect)
        let mut ov_replicas: HashSet<usize> = HashSet::new();
        let mut by_start: Vec<&Event> = evs.iter().collect();
        by_start.sort_by_key(|e| e.start);
        for (a_i, a) in by_start.iter().enumerate() {
            for b in by_start.iter().skip(a_i + 1) {
                if b.start > a.end {
                    break;
                }
                if a.thread != b.thread {
                    overlapping_pairs += 1;
                    ov_replicas.insert(a.replica);
                    ov_replicas.insert(b.replica);
                }
            }
        }
        let replicas: HashSet<usize> = evs.iter().map(|e| e.replica).collect();
        rep.evaluations += replicas.len() as u64;
        rep.add("replicas_compared", replicas.len() as u64);
        rep.add("replicas_overlapping_other_instances", ov_replicas.len() as u64);
        rep.add("calls_compared", evs.len() as u64);
        rep.count(&format!("rounds:threads={}", t));
        for r in ov_replicas {
            rep.distinct.insert(fnv64(&[(r % 251) as u8, (r >> 8) as u8, t as u8]) ^ sig);
        }
    }
    rep.add("overlapping_call_pairs", overlapping_pairs);
    rep.add("distinct_interleaving_signatures", signatures.len() as u64);
    rep.sample(4, || J::obj().set("histories", n_hist).set("example_history_calls", J::Arr(hists[0].calls.iter().map(|c| J::Str(format!("{} bytes: {}", c.len(), hex(&c[..c.len().min(12)])))).collect())).set("sorenson", hists[0].sorenson));
    rep.sample(4, || J::obj().set("rounds", rounds).set("thread_counts", format!("{:?}", thread_counts)).set("instances_per_thread", 3).set("baseline_digest", base_s.clone()));
    if ctx.is_main() {
        rep.require("overlapping_call_pairs", 1000);
        rep.require("distinct_interleaving_signatures", 10);
        rep.require("fresh_process_digests_equal", 2);
        rep.require("ladder_long_interleavings_equal", 28);
        rep.require("ladder_bystanders_equal", 1);
        rep.require("ladder_static_stuffed_scenes_equal", 3);
        rep.require("ladder_reader_probed_by_another_instance_equal", 24);
        rep.require("ladder_slow_source_equal", 1);
        rep.require("isolated_baselines_equal", n_hist as u64);
        rep.require("reverse_order_pass_equal", 1);
    }
    let _ = Tier::Quick;
    (rep, rule())
}
