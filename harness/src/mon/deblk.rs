//! C09 - deblocking equals the Annex J edge filter at every block edge;
//! C16 - every image size and strength is accepted; strength table is Table J.2.
//! Differential against the scalar edge-by-edge model, through `deblock()` only.

use crate::json::J;
use crate::model::annexj;
use crate::report::Report;
use crate::util::{catch, fnv64, hex, par_shards, splitmix, Rng};
use crate::{Ctx, Tier};
use h263_rs_deblock::deblock::{deblock, QUANT_TO_STRENGTH};

pub fn rule_c09() -> String {
    "cases = (a) four-sample patterns x strengths laid out as wide 10-row images (horizontal edge: vector chunks + scalar remainder columns) and tall 10-column images (vertical edge: 8-row groups + remainder rows), enumerated over a lattice / bijectively scrambled counter (quick) or all 2^32 patterns (thorough, horizontal path); (b) every (width, height) in a dense box x strengths x random and alternating 0/255 content; every output byte compared with the scalar Annex J model; distinct = patterns/images enumerated without repetition (counted by the enumeration)".into()
}

fn compare(data: &[u8], w: usize, s: u8, rep: &mut Report, what: &str, prop: &str) -> bool {
    compare_at(data, w, s, rep, what, prop, None)
}

/// `over`: replay coordinates to use instead of the single image (call sequences replay as a whole).
fn compare_at(data: &[u8], w: usize, s: u8, rep: &mut Report, what: &str, prop: &str, over: Option<&J>) -> bool {
    let coords = || match over {
        Some(j) => j.clone().set("what", what),
        None => J::obj().set("property", prop).set("kind", "image").set("w", w).set("strength", s as u64).set("data", if data.len() <= 4096 { hex(data) } else { format!("{} bytes (too long to inline); {}", data.len(), what) }).set("what", what),
    };
    let keep = data.to_vec();
    let out = match catch(|| deblock(data, w, s)) {
        Ok(o) => o,
        Err(p) => {
            rep.violation(format!("panic@{}", p.loc), format!("deblock({} bytes, width {}, strength {}) panicked: {} [{}]", data.len(), w, s, p.msg, what), coords());
            return false;
        }
    };
    if out.len() != data.len() {
        rep.violation("length", format!("deblock({} bytes, width {}) returned {} bytes", data.len(), w, out.len()), coords());
        return false;
    }
    if keep != data {
        rep.violation("input-modified", "input slice changed".to_string(), coords());
        return false;
    }
    let want = annexj::deblock(data, w, s);
    if out != want {
        let i = (0..out.len()).find(|i| out[*i] != want[*i]).unwrap();
        let (x, y) = (i % w, i / w);
        let h = data.len() / w;
        // classify where the differing byte lies
        let near_h = y % 8 >= 6 || y % 8 <= 1;
        let near_v = x % 8 >= 6 || x % 8 <= 1;
        let lane = if near_h && !near_v {
            if x < w - w % 8 {
                "h-edge/vector"
            } else {
                "h-edge/scalar"
            }
        } else if near_v && !near_h {
            if y < h - h % 8 {
                "v-edge/vector"
            } else {
                "v-edge/scalar"
            }
        } else if near_h && near_v {
            "corner"
        } else {
            "interior"
        };
        rep.violation(format!("mismatch/{}", lane), format!("{}x{} strength {}: byte ({},{}) = {} but Annex J gives {} (input {}) [{}]", w, h, s, x, y, out[i], want[i], data[i], what), coords());
        return false;
    }
    true
}

/// Bijective scrambling of a 32-bit counter (odd multiplier + xorshifts are invertible).
fn scramble(i: u32, key: u32) -> u32 {
    let mut x = i.wrapping_mul(0x9E3779B1) ^ key;
    x ^= x >> 15;
    x = x.wrapping_mul(0x85EBCA6B);
    x ^= x >> 13;
    x
}

fn horiz_image(pats: &[u32]) -> (Vec<u8>, usize) {
    // 10 rows: rows 6..9 carry A,B,C,D of pattern i in column i
    let w = pats.len();
    let mut d = vec![0u8; 10 * w];
    for (i, p) in pats.iter().enumerate() {
        let a = (*p >> 24) as u8;
        d[i] = a; // rows 0..5: keep some non-zero content above, must stay untouched
        d[6 * w + i] = a;
        d[7 * w + i] = (*p >> 16) as u8;
        d[8 * w + i] = (*p >> 8) as u8;
        d[9 * w + i] = *p as u8;
    }
    (d, w)
}

fn vert_image(pats: &[u32]) -> (Vec<u8>, usize) {
    // 10 columns: columns 6..9 carry A,B,C,D of pattern j in row j
    let h = pats.len();
    let mut d = vec![0u8; 10 * h];
    for (j, p) in pats.iter().enumerate() {
        d[j * 10 + 6] = (*p >> 24) as u8;
        d[j * 10 + 7] = (*p >> 16) as u8;
        d[j * 10 + 8] = (*p >> 8) as u8;
        d[j * 10 + 9] = *p as u8;
        d[j * 10 + 2] = *p as u8;
    }
    (d, 10)
}

fn grad_class(p: u32) -> &'static str {
    let (a, b, c, d) = ((p >> 24) as i32, (p >> 16 & 255) as i32, (p >> 8 & 255) as i32, (p & 255) as i32);
    let g = a - 4 * b + 4 * c - d;
    if g < 0 {
        "negative"
    } else if g > 0 {
        "positive"
    } else {
        "zero"
    }
}

pub fn run_c09(ctx: &Ctx) -> (Report, String) {
    let thorough = ctx.tier == Tier::Thorough;
    let mut total = Report::new();
    // ---------------- (a) kernel ----------------
    if thorough && ctx.is_main() && ctx.stage == "rel" {
        // all 2^32 patterns x 12 strengths through the horizontal-edge path: shard = A value
        let reps = par_shards(256, ctx.threads, |a| {
            let mut rep = Report::new();
            let mut pats = vec![0u32; 65536];
            for b in 0..256u32 {
                for (i, p) in pats.iter_mut().enumerate() {
                    *p = (a as u32) << 24 | b << 16 | i as u32;
                }
                let (img, w) = horiz_image(&pats);
                for s in 1..=12u8 {
                    rep.evaluations += 1;
                    if compare(&img, w, s, &mut rep, &format!("exhaustive horizontal sweep A={} B={}", a, b), "C09") {
                        rep.add("kernel_patterns_horizontal", 65536);
                        rep.distinct_enumerated += 65536;
                    } else {
                        return rep;
                    }
                }
            }
            rep
        });
        let r = Report::merge_all(reps);
        let done = r.get("kernel_patterns_horizontal");
        total.merge(r);
        total.exhaustive = Some(done == 12u64 << 32);
        total.notes.insert("kernel_sweep".into(), J::Str(format!("all 2^32 patterns x 12 strengths through the horizontal-edge path: {} evaluated", done)));
    }
    {
        // lattice + scrambled-counter patterns through both paths
        let n_chunks = if ctx.miri() { 16 } else { ctx.n(512, 4352) as usize }; // chunks of 4096 patterns per path per strength group
        let reps = par_shards(n_chunks, ctx.threads, |c| {
            let mut rep = Report::new();
            let key = splitmix(ctx.seed ^ 0xC09) as u32;
            // widths/heights chosen so that vector chunks and scalar remainders both occur
            let n = if ctx.miri() { 16 + 7 } else { 4096 + 7 };
            let lattice = c < 256 && !ctx.miri();
            let pats: Vec<u32> = (0..n as u32)
                .map(|i| {
                    if lattice {
                        // 32 levels per sample: 2^20 patterns in 256 chunks of 4096 (+7 wrap-around)
                        let k = (c as u32 * 4096 + i) & 0xFFFFF;
                        let lv = |v: u32| -> u32 { (v * 255 / 31) & 255 };
                        lv(k >> 15) << 24 | lv(k >> 10 & 31) << 16 | lv(k >> 5 & 31) << 8 | lv(k & 31)
                    } else {
                        scramble(c as u32 * n as u32 + i, key)
                    }
                })
                .collect();
            for s in (1..=12u8).filter(|s| !ctx.miri() || s % 4 == (c % 4) as u8) {
                let (img, w) = horiz_image(&pats);
                rep.evaluations += 1;
                if compare(&img, w, s, &mut rep, &format!("horizontal kernel chunk {} ({})", c, if lattice { "lattice" } else { "scrambled" }), "C09") {
                    rep.add("kernel_patterns_horizontal", n as u64);
                } else {
                    return rep;
                }
                let (img, w) = vert_image(&pats);
                rep.evaluations += 1;
                if compare(&img, w, s, &mut rep, &format!("vertical kernel chunk {}", c), "C09") {
                    rep.add("kernel_patterns_vertical", n as u64);
                } else {
                    return rep;
                }
            }
            for p in &pats {
                rep.count(&format!("gradient={}", grad_class(*p)));
            }
            rep.distinct_enumerated += 12 * 2 * n as u64;
            if c == 0 {
                rep.sample(4, || J::obj().set("part", "kernel").set("layout", "10 x 4103 image (patterns in columns, rows 6..9 = A,B,C,D) and 4103 x 10 image (patterns in rows, columns 6..9)").set("first_patterns", format!("{:08x?}", &pats[..6])).set("strengths", "1..=12"));
            }
            rep
        });
        total.merge(Report::merge_all(reps));
    }
    // ---------------- (b) geometry ----------------
    let maxd: usize = if ctx.stage == "miri" {
        20
    } else if thorough {
        130
    } else {
        40
    };
    let strengths: Vec<u8> = if ctx.miri() { vec![6] } else if thorough { (1..=12).collect() } else { vec![1, 6, 12] };
    let reps = par_shards(maxd, ctx.threads, |wi| {
        let w = wi + 1;
        let mut rep = Report::new();
        let mut rng = Rng::new(ctx.seed ^ 0xC09, w as u64);
        for h in 1..=maxd {
            for s in &strengths {
                for content in 0..9 {
                    let mut d = vec![0u8; w * h];
                    match content {
                        0 => rng.fill(&mut d),
                        8 => {
                            // thin lines on a flat background
                            let bg = *rng.pick(&[0u8, 16, 128, 200, 255]);
                            d.iter_mut().for_each(|p| *p = bg);
                            for _ in 0..1 + rng.below(3) {
                                let (y0, th, v) = (rng.below(h as u64) as usize, 1 + rng.below(2) as usize, rng.byte());
                                for y in y0..(y0 + th).min(h) {
                                    d[y * w..(y + 1) * w].iter_mut().for_each(|p| *p = v);
                                }
                            }
                            for _ in 0..rng.below(3) {
                                let (x0, th, v) = (rng.below(w as u64) as usize, 1 + rng.below(2) as usize, rng.byte());
                                for x in x0..(x0 + th).min(w) {
                                    for y in 0..h {
                                        d[y * w + x] = v;
                                    }
                                }
                            }
                        }
                        5 | 6 => {
                            // runs of identical rows (5) or columns (6), 1-8 thick, cycling through two or three
                            // line patterns at a random phase (groups of lines that are equal in pairs but not all equal)
                            let t = *rng.pick(&[1usize, 2, 2, 3, 4, 8]);
                            let m = 2 + rng.below(2) as usize;
                            let phase = rng.below(8) as usize;
                            let len = if content == 5 { w } else { h };
                            let lines: Vec<Vec<u8>> = (0..m)
                                .map(|_| {
                                    if rng.chance(1, 2) {
                                        vec![*rng.pick(&[0u8, 255, 40, 200, 128, 131]); len]
                                    } else {
                                        let mut l = vec![0u8; len];
                                        rng.fill(&mut l);
                                        l
                                    }
                                })
                                .collect();
                            for (i, v) in d.iter_mut().enumerate() {
                                let (x, y) = (i % w, i / w);
                                *v = if content == 5 { lines[((y + phase) / t) % m][x] } else { lines[((x + phase) / t) % m][y] };
                            }
                        }
                        7 => {
                            // one-sample stripes and the 1x1 checkerboard at full contrast
                            let kind = rng.below(3);
                            let pol = rng.below(2) as usize;
                            for (i, v) in d.iter_mut().enumerate() {
                                let (x, y) = (i % w, i / w);
                                let bit = match kind {
                                    0 => x % 2,
                                    1 => y % 2,
                                    _ => (x + y) % 2,
                                };
                                *v = if bit == pol { 255 } else { 0 };
                            }
                        }
                        1 => {
                            for (i, v) in d.iter_mut().enumerate() {
                                *v = if ((i % w) / 2 + (i / w) / 2) % 2 == 0 { 0 } else { 255 };
                            }
                        }
                        2 => {
                            // blocky: constant 8x8 blocks with moderate steps (what real decoded pictures look like)
                            let mut blk = [0u8; 1024];
                            rng.fill(&mut blk);
                            let base = rng.byte();
                            for (i, v) in d.iter_mut().enumerate() {
                                let b = blk[(((i % w) / 8) * 7 + ((i / w) / 8) * 13) % 1024] % 24;
                                *v = base.wrapping_add(b);
                            }
                        }
                        3 => {
                            // repeated rows / columns (period 1, 2 or 4): content-dependent shortcuts show here
                            let (px, py) = (1usize << rng.below(3), 1usize << rng.below(3));
                            let mut t = [0u8; 16];
                            rng.fill(&mut t);
                            for (i, v) in d.iter_mut().enumerate() {
                                *v = t[((i / w) % py) * 4 + (i % w) % px];
                            }
                        }
                        _ => {
                            // smooth ramp with a few outliers
                            for (i, v) in d.iter_mut().enumerate() {
                                *v = ((i % w) * 3 + (i / w) * 5) as u8;
                            }
                            for _ in 0..(w * h / 16).max(1) {
                                let p = rng.below((w * h) as u64) as usize;
                                d[p] = rng.byte();
                            }
                        }
                    }
                    rep.evaluations += 1;
                    if compare(&d, w, *s, &mut rep, &format!("geometry {}x{} content {}", w, h, content), "C09") {
                        rep.count("geometry_images");
                        rep.count(&format!("geom:wmod8={}:hmod8={}", w % 8, h % 8));
                        rep.distinct.insert(fnv64(&[w as u8, h as u8, *s, content as u8, (w >> 8) as u8]));
                        let h_edges = if h >= 10 { (h - 2) / 8 } else { 0 };
                        let v_edges = if w >= 10 { (w - 2) / 8 } else { 0 };
                        rep.add("edges_filtered", (h_edges + v_edges) as u64);
                        rep.add("edges_skipped_at_border", ((h / 8).saturating_sub(h_edges) + (w / 8).saturating_sub(v_edges)) as u64);
                    }
                }
            }
        }
        if w == 11 {
            rep.sample(4, || J::obj().set("part", "geometry").set("sizes", format!("every (w,h) in 1..={0} x 1..={0}", maxd)).set("strengths", format!("{:?}", strengths)).set("contents", "0 = random bytes, 1 = 2x2 checkerboard of 0/255"));
        }
        rep
    });
    total.merge(Report::merge_all(reps));
    if !ctx.miri() {
        total.merge(boundary_images(ctx, "C09"));
    }
    total.merge(call_sequences(ctx, "C09"));
    if ctx.is_main() && ctx.scale_pct == 100 {
        total.require("call_sequences", 2000);
        total.require("calls_on_unaligned_subslices", 2000);
    }
    {
    }
    if ctx.is_main() && ctx.scale_pct == 100 {
        total.require("boundary_images", 100);
        total.require("kernel_patterns_horizontal", 3_000_000);
        total.require("kernel_patterns_vertical", 3_000_000);
        total.require("gradient=negative", 100_000);
        total.require("gradient=positive", 100_000);
        total.require("geometry_images", (maxd * maxd * strengths.len() * 9) as u64);
    }
    if total.exhaustive.is_none() {
        total.exhaustive = Some(false);
    }
    (total, rule_c09())
}

/// Call sequences on one thread: the result of a call must not depend on the calls before it.
/// Consecutive calls share the sample count (different factorizations of one area, transposes),
/// often the very same bytes and strength, with unrelated sizes in between now and then; the
/// input is a sub-slice at byte offset 0..3 of a larger buffer.
pub fn sequence_case(ctx: &Ctx, prop: &'static str, k: usize, rep: &mut Report) {
    let mut rng = Rng::new(ctx.seed ^ 0x5e9c09, k as u64);
    let over = J::obj().set("property", prop).set("kind", "sequence").set("tier", ctx.tier_name()).set("seed", ctx.seed).set("stage", ctx.stage.clone()).set("k", k);
    let (w0, h0) = (1 + rng.below(if ctx.miri() { 12 } else { 40 }) as usize, 1 + rng.below(if ctx.miri() { 12 } else { 40 }) as usize);
    let area = w0 * h0;
    let widths: Vec<usize> = (1..=area).filter(|d| area % d == 0).collect();
    let n = if ctx.miri() { 3 } else { 3 + rng.below(6) as usize };
    let mut bytes = vec![0u8; area];
    rng.fill(&mut bytes);
    let mut strength = 1 + rng.below(12) as u8;
    let mut hist = String::new();
    for i in 0..n {
        let (w, data): (usize, Vec<u8>) = if i > 0 && rng.chance(1, 6) {
            // an unrelated picture in between
            let (w, h) = (1 + rng.below(30) as usize, rng.below(30) as usize);
            let mut d = vec![0u8; w * h];
            rng.fill(&mut d);
            (w, d)
        } else {
            if rng.chance(1, 2) {
                rng.fill(&mut bytes);
            }
            (*rng.pick(&widths), bytes.clone())
        };
        if rng.chance(1, 3) {
            strength = 1 + rng.below(12) as u8;
        }
        let off = rng.below(4) as usize;
        let mut buf = vec![0xa5u8; off + data.len() + 3];
        buf[off..off + data.len()].copy_from_slice(&data);
        hist.push_str(&format!("{}x{}@{}s{} ", w, data.len() / w, off, strength));
        rep.evaluations += 1;
        if !compare_at(&buf[off..off + data.len()], w, strength, rep, &format!("call {} of the sequence [{}]", i, hist.trim_end()), prop, Some(&over)) {
            return;
        }
        rep.count("sequence_calls_ok");
        if off != 0 {
            rep.count("calls_on_unaligned_subslices");
        }
    }
    rep.count("call_sequences");
    rep.distinct.insert(fnv64(hist.as_bytes()));
}

fn call_sequences(ctx: &Ctx, prop: &'static str) -> Report {
    let n = if ctx.miri() { 16 } else { ctx.n(3000, 60000) as usize };
    let reps = par_shards(64, ctx.threads, |sh| {
        let mut rep = Report::new();
        let mut k = sh;
        while k < n {
            crate::mon::guarded(&mut rep, || J::obj().set("property", prop).set("kind", "sequence").set("k", k), |rep| sequence_case(ctx, prop, k, rep));
            k += 64;
        }
        rep
    });
    Report::merge_all(reps)
}

/// Sample-count ladder: more than 2^24 samples of full-contrast or saturated content, where sums
/// of samples or of sample differences no longer fit in 32 bits (2^32 / 255 = 16 843 009.0...).
fn huge_images(ctx: &Ctx, prop: &'static str) -> Report {
    let mut items: Vec<(usize, usize, usize)> = vec![(16_843_011, 1, 0), (1, 16_843_011, 1), (4099, 4110, 2), (16_843_009, 1, 0), (4104, 4104, 3), (2_105_377, 8, 0), (9, 1_871_446, 1), (4099, 4110, 4)];
    if ctx.tier == Tier::Thorough {
        items.extend([(33_686_021, 1, 0), (8200, 8200, 4), (5800, 5801, 2), (3, 11_184_811, 2), (16_843_011, 2, 3), (8421505, 2, 1)]);
    }
    let reps = par_shards(items.len(), ctx.threads.min(4), |k| {
        let (w, h, content) = items[k];
        let mut rep = Report::new();
        let mut rng = Rng::new(ctx.seed ^ 0xC16AD, k as u64);
        let mut d = vec![0u8; w * h];
        match content {
            0 => d.iter_mut().enumerate().for_each(|(i, v)| *v = if (i % w) % 2 == 0 { 255 } else { 0 }),
            1 => d.iter_mut().enumerate().for_each(|(i, v)| *v = if (i / w) % 2 == 0 { 0 } else { 255 }),
            2 => d.iter_mut().enumerate().for_each(|(i, v)| *v = if (i % w + i / w) % 2 == 0 { 255 } else { 0 }),
            3 => d.iter_mut().for_each(|v| *v = 255),
            _ => rng.fill(&mut d),
        }
        let s = [12u8, 1, 7, 12][k % 4];
        rep.evaluations += 1;
        if compare(&d, w, s, &mut rep, &format!("huge {}x{} strength {} content {}", w, h, s, content), prop) {
            rep.count("huge_images");
            rep.distinct.insert(fnv64(&[(w >> 16) as u8, (w >> 8) as u8, w as u8, (h >> 16) as u8, (h >> 8) as u8, h as u8, s, content as u8, 0xee]));
        }
        rep
    });
    Report::merge_all(reps)
}

/// Boundary-value ladder for the geometry: one dimension around powers of two up to 2^17 (and a
/// few large squares), the other small - thresholds a dense small box never reaches.
fn boundary_images(ctx: &Ctx, prop: &'static str) -> Report {
    let mut dims: Vec<(usize, usize)> = vec![];
    for d in [255usize, 256, 257, 1023, 1025, 4095, 4097, 8191, 8193, 16383, 16385, 32767, 32769, 65534, 65535, 65536, 65537, 131071, 131072, 131073, 262143, 262144, 262145, 524287, 524288, 524289, 1048575, 1048576, 1048577, 2097152] {
        for s in [1usize, 2, 9, 10, 11, 17] {
            dims.push((d, s));
            dims.push((s, d));
        }
    }
    dims.extend([(1024, 1024), (1031, 1027), (2050, 514), (1280, 720), (1920, 1080), (1084, 971), (300_001, 10), (10, 300_001), (2_100_000, 2)]);
    let reps = par_shards(dims.len(), ctx.threads, |k| {
        let (w, h) = dims[k];
        let mut rep = Report::new();
        let mut rng = Rng::new(ctx.seed ^ 0xC09AD, k as u64);
        for (ci, s) in [(0usize, 1u8 + (k % 12) as u8), (1, 12), (2, 1 + ((k / 3) % 12) as u8)] {
            let mut d = vec![0u8; w * h];
            match ci {
                0 => rng.fill(&mut d),
                1 => {
                    // uniform rows / uniform columns: every edge sees the same four samples all along
                    let by_rows = k % 2 == 0;
                    let mut t = vec![0u8; if by_rows { h } else { w }];
                    rng.fill(&mut t);
                    for (i, v) in d.iter_mut().enumerate() {
                        *v = if by_rows { t[i / w] } else { t[i % w] };
                    }
                }
                _ => {
                    // content repeating with period 8 along the long dimension
                    let mut t = [0u8; 64];
                    rng.fill(&mut t);
                    for (i, v) in d.iter_mut().enumerate() {
                        *v = t[((i / w) % 8) * 8 + (i % w) % 8];
                    }
                }
            }
            rep.evaluations += 1;
            if compare(&d, w, s, &mut rep, &format!("boundary {}x{} strength {} content {}", w, h, s, ci), prop) {
                rep.count("boundary_images");
                rep.distinct.insert(fnv64(&[(w >> 16) as u8, (w >> 8) as u8, w as u8, (h >> 16) as u8, (h >> 8) as u8, h as u8, s, ci as u8]));
            }
        }
        rep
    });
    Report::merge_all(reps)
}

pub fn replay_image(j: &J, rep: &mut Report, prop: &str) {
    if j.get("kind").and_then(|k| k.as_str()) == Some("sequence") {
        let ctx = Ctx { tier: if j.get("tier").and_then(|t| t.as_str()) == Some("thorough") { Tier::Thorough } else { Tier::Quick }, seed: j.get("seed").and_then(|v| v.as_i64()).unwrap_or(1) as u64, threads: 1, stage: j.get("stage").and_then(|v| v.as_str()).unwrap_or("chk").to_string(), scale_pct: 100 };
        let prop: &'static str = if prop == "C16" { "C16" } else { "C09" };
        sequence_case(&ctx, prop, j.get("k").and_then(|v| v.as_i64()).unwrap_or(0) as usize, rep);
        return;
    }
    let w = j.get("w").and_then(|v| v.as_i64()).unwrap_or(1) as usize;
    let s = j.get("strength").and_then(|v| v.as_i64()).unwrap_or(1) as u8;
    let data = crate::util::unhex(j.get("data").and_then(|v| v.as_str()).unwrap_or(""));
    compare(&data, w, s, rep, "replay", prop);
}

// ------------------------------------------------------------------------------------------
// C16
// ------------------------------------------------------------------------------------------

pub fn rule_c16() -> String {
    "cases = every (width 1..=W, height 0..=H, strength 1..=12) with random content (W = H = 72 quick, 300 thorough): the call must return (no panic) a vector of the input's length, equal to the Annex J model; plus the 31 entries of the quantiser-to-strength table against Table J.2; distinct by (w, h, strength), counted by the enumeration".into()
}

pub fn run_c16(ctx: &Ctx) -> (Report, String) {
    let maxd: usize = if ctx.stage == "miri" {
        20
    } else if ctx.tier == Tier::Thorough {
        300
    } else {
        72
    };
    let maxd = (maxd as u64 * ctx.scale_pct.min(100) / 100).max(12) as usize;
    let reps = par_shards(maxd, ctx.threads, |wi| {
        let w = wi + 1;
        let mut rep = Report::new();
        let mut rng = Rng::new(ctx.seed ^ 0xC16, w as u64);
        for h in 0..=maxd {
            let mut d = vec![0u8; w * h];
            rng.fill(&mut d);
            for s in (1..=12u8).filter(|s| !ctx.miri() || *s as usize % 6 == h % 6) {
                rep.evaluations += 1;
                if compare(&d, w, s, &mut rep, &format!("{}x{} strength {}", w, h, s), "C16") {
                    rep.count("calls_ok");
                    rep.distinct_enumerated += 1;
                    let cls = if h < 2 {
                        "rows<2"
                    } else if h < 10 {
                        "rows<10"
                    } else {
                        "rows>=10"
                    };
                    let cls2 = if w < 10 { "cols<10" } else { "cols>=10" };
                    rep.count(&format!("class:{}:{}", cls, cls2));
                } else {
                    break;
                }
                // full-contrast content: one-sample stripes either way and the checkerboard, both polarities -
                // the largest gradients the filter can meet, at every position of every geometry
                if ctx.miri() && (w + h) % 5 != 0 {
                    continue;
                }
                let kind = (s as usize + w + h) % 3;
                let pol = ((w + 2 * h + s as usize) / 3) % 2;
                let e: Vec<u8> = (0..w * h)
                    .map(|i| {
                        let (x, y) = (i % w, i / w);
                        let bit = match kind {
                            0 => x % 2,
                            1 => y % 2,
                            _ => (x + y) % 2,
                        };
                        if bit == pol {
                            255
                        } else {
                            0
                        }
                    })
                    .collect();
                // thin lines: a flat background with one to three full-width rows and up to two full-height
                // columns (one or two samples thick) of other values, at any phase of the 8x8 grid
                if w * h > 0 {
                    let bg = *rng.pick(&[0u8, 16, 128, 200, 255]);
                    let mut t = vec![bg; w * h];
                    for _ in 0..1 + rng.below(3) {
                        let (y0, th, v) = (rng.below(h as u64) as usize, 1 + rng.below(2) as usize, rng.byte());
                        for y in y0..(y0 + th).min(h) {
                            t[y * w..(y + 1) * w].iter_mut().for_each(|p| *p = v);
                        }
                    }
                    for _ in 0..rng.below(3) {
                        let (x0, th, v) = (rng.below(w as u64) as usize, 1 + rng.below(2) as usize, rng.byte());
                        for x in x0..(x0 + th).min(w) {
                            for y in 0..h {
                                t[y * w + x] = v;
                            }
                        }
                    }
                    rep.evaluations += 1;
                    if compare(&t, w, s, &mut rep, &format!("{}x{} strength {} thin lines", w, h, s), "C16") {
                        rep.count("thin_line_calls_ok");
                    } else {
                        break;
                    }
                }
                rep.evaluations += 1;
                if compare(&e, w, s, &mut rep, &format!("{}x{} strength {} full-contrast content {} polarity {}", w, h, s, kind, pol), "C16") {
                    rep.count("full_contrast_calls_ok");
                    rep.count(&format!("full_contrast:strength={}:kind={}", s, kind));
                } else {
                    break;
                }
            }
        }
        rep
    });
    let mut rep = Report::merge_all(reps);
    if !ctx.miri() {
        rep.merge(boundary_images(ctx, "C16"));
    }
    rep.merge(call_sequences(ctx, "C16"));
    if ctx.is_main() {
        rep.require("call_sequences", 2000 * ctx.scale_pct.min(100) / 100);
        rep.merge(huge_images(ctx, "C16"));
        rep.require("huge_images", if ctx.tier == Tier::Thorough { 14 } else { 8 });
        rep.require("full_contrast_calls_ok", (maxd * maxd * 12) as u64);
        rep.require("thin_line_calls_ok", (maxd * maxd * 12) as u64);
        for kind in 0..3 {
            rep.require(&format!("full_contrast:strength=12:kind={}", kind), 100);
        }
    }
    // Table J.2
    for q in 1..=31usize {
        rep.evaluations += 1;
        if QUANT_TO_STRENGTH.len() != 32 || QUANT_TO_STRENGTH[q] != annexj::TABLE_J2[q] {
            rep.violation(format!("table-j2/q={}", q), format!("QUANT_TO_STRENGTH[{}] = {:?}, Table J.2 says {}", q, QUANT_TO_STRENGTH.get(q), annexj::TABLE_J2[q]), J::obj().set("property", "C16").set("kind", "table"));
        } else {
            rep.count("table_entries_ok");
            rep.distinct_enumerated += 1;
        }
    }
    rep.sample(4, || J::obj().set("sizes", format!("w in 1..={0}, h in 0..={0}, strength in 1..=12, random bytes", maxd)).set("table", format!("{:?}", &QUANT_TO_STRENGTH[..])));
    rep.exhaustive = Some(rep.violations.is_empty());
    if ctx.is_main() && ctx.scale_pct == 100 {
        rep.require("calls_ok", (maxd * (maxd + 1) * 12) as u64);
        rep.require("table_entries_ok", 31);
        rep.require("class:rows<2:cols<10", 100);
        rep.require("boundary_images", 100);
    }
    (rep, rule_c16())
}
