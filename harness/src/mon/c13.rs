//! C13 - every decoded picture can be deblocked and converted to RGBA.
//! End-to-end pipeline monitor: decode -> deblock each plane with the strength
//! tabulated for the picture's quantiser -> convert; watches plane-size
//! relations, panics (debug assertions of both post-processing crates are live
//! in the overflow-checked build) and output lengths.

use crate::gen::*;
use crate::json::J;
use crate::model::annexj;
use crate::report::Report;
use crate::sut::{Dec, Outcome};
use crate::util::{catch, fnv64, hex, par_shards, Rng};
use crate::{Ctx, Tier};
use h263_rs_deblock::deblock::{deblock, QUANT_TO_STRENGTH};
use h263_rs_yuv::bt601::yuv420_to_rgba;

pub fn rule() -> String {
    "cases = (width, height, quantiser, picture kind): every width x height in a dense box (all 1-row, 1-column, odd and <10-wide sizes) x several quantisers, intra pictures and a sample of predicted pictures, plus the fixed formats; each decoded picture's planes are checked against the documented size relations, deblocked with QUANT_TO_STRENGTH[quantiser] and converted; distinct by hash of the encoded picture; non-trivial = picture decoded successfully".into()
}

fn pipeline(dec: &Dec, w: usize, h: usize, q: u8, rep: &mut Report, coords: &dyn Fn() -> J) -> bool {
    let Some(p) = dec.planes() else {
        rep.violation("no-picture", "decode returned Ok but no picture".to_string(), coords());
        return false;
    };
    let crow = dec.chroma_row().unwrap_or(0);
    let (cw, ch) = ((w + 1) / 2, (h + 1) / 2);
    if p.w != w || p.h != h || p.y.len() != w * h || p.cb.len() != cw * ch || p.cr.len() != cw * ch || crow != cw {
        rep.violation("plane-relations", format!("{}x{}: luma {} (want {}), chroma {}/{} (want {}), chroma row {} (want {})", w, h, p.y.len(), w * h, p.cb.len(), p.cr.len(), cw * ch, crow, cw), coords());
        return false;
    }
    let hdr_q = dec.header_view().map(|v| v.quant).unwrap_or(q);
    let s = QUANT_TO_STRENGTH[hdr_q.clamp(1, 31) as usize];
    let r = catch(|| {
        let y = deblock(&p.y, w, s);
        let cb = deblock(&p.cb, crow, s);
        let cr = deblock(&p.cr, crow, s);
        let rgba = yuv420_to_rgba(&y, &cb, &cr, w);
        (y, cb, cr, rgba)
    });
    match r {
        Err(pn) => {
            rep.violation(format!("panic@{}", pn.loc), format!("post-processing a decoded {}x{} picture (q={}, strength {}) panicked: {}", w, h, hdr_q, s, pn.msg), coords());
            false
        }
        Ok((y, cb, cr, rgba)) => {
            if y.len() != p.y.len() || cb.len() != p.cb.len() || cr.len() != p.cr.len() || rgba.len() != 4 * w * h {
                rep.violation("output-length", format!("{}x{}: deblocked lengths {}/{}/{} rgba {} (want {})", w, h, y.len(), cb.len(), cr.len(), rgba.len(), 4 * w * h), coords());
                return false;
            }
            // the deblocked planes must also be what Annex J prescribes (ties C13 to C09 on real pictures)
            if y != annexj::deblock(&p.y, w, s) || cb != annexj::deblock(&p.cb, crow, s) {
                rep.violation("deblock-differs-from-annex-j", format!("{}x{} q={}", w, h, hdr_q), coords());
                return false;
            }
            if rgba.chunks(4).any(|px| px[3] != 255) {
                rep.violation("alpha", format!("{}x{}: alpha != 255", w, h), coords());
                return false;
            }
            true
        }
    }
}

pub fn case(ctx: &Ctx, w: usize, h: usize, k: u64, rep: &mut Report) {
    let mut rng = Rng::new(ctx.seed ^ 0xC13, ((w as u64) << 32) | ((h as u64) << 8) | k);
    let flavour = if w % 4 == 0 && h % 4 == 0 && rng.chance(1, 3) { Flavour::StdPlus } else { Flavour::Sor(rng.below(2) as u8) };
    let mut cfg = gen_cfg(&mut rng, flavour, w, h);
    cfg.quant = match k {
        0 => 1 + rng.below(31) as u8,
        1 => 31,
        _ => *rng.pick(&[1u8, 2, 3, 16]),
    };
    cfg.wide_levels = false;
    let pic = gen_intra(&mut rng, &cfg);
    let bytes = pic.encode();
    rep.evaluations += 1;
    let coords = || J::obj().set("property", "C13").set("tier", ctx.tier_name()).set("seed", ctx.seed).set("stage", ctx.stage.clone()).set("w", w).set("h", h).set("k", k).set("bytes", if bytes.len() < 3000 { hex(&bytes) } else { String::new() });
    let mut dec = Dec::new(flavour.sorenson(), flavour.sorenson() && k == 2);
    match dec.decode(&bytes) {
        Outcome::Ok => {}
        o => {
            rep.count(&format!("skipped:decode:{}", o.short()));
            return;
        }
    }
    if !pipeline(&dec, w, h, cfg.quant, rep, &coords) {
        return;
    }
    rep.count("pictures_postprocessed");
    rep.count(&format!("quant={}", cfg.quant));
    rep.count(&format!("class:{}:{}:{}", if h <= 2 { "chroma-rows<2" } else if h < 20 { "rows<20" } else { "rows>=20" }, if w < 10 { "cols<10" } else if w < 20 { "chroma-cols<10" } else { "cols>=20" }, if w % 2 == 1 || h % 2 == 1 { "odd" } else { "even" }));
    rep.distinct.insert(fnv64(&bytes));
    // a predicted picture on top, for a sample
    if rng.chance(1, 4) {
        let ic = InterCfg { ptype: 0, big_vectors_pct: 50, residual_pct: 50, truncate: None, allow_q: true };
        cfg.tr = cfg.tr.wrapping_add(1);
        let p = gen_inter(&mut rng, &cfg, &ic);
        let pb = p.encode();
        rep.evaluations += 1;
        if dec.decode(&pb) == Outcome::Ok && pipeline(&dec, w, h, cfg.quant, rep, &coords) {
            rep.count("p_pictures_postprocessed");
            rep.distinct.insert(fnv64(&pb));
        }
    }
    // a picture of another size on the same decoder: a new intra picture, or a (disposable) predicted
    // picture made of intra macroblocks only - its planes must have the size its own header states
    // ... or a run of intra pictures that keep the sample count and change the shape (transposed, other
    // factorizations of the same area) - buffers sized by area alone would fit and be wrong
    if flavour.sorenson() && rng.chance(1, 4) {
        let area = w * h;
        let shapes: Vec<(usize, usize)> = (1..=area).filter(|d| area % d == 0 && *d <= 4000 && area / d <= 4000).map(|d| (d, area / d)).collect();
        for step in 0..2 + rng.below(3) {
            let (w2, h2) = *rng.pick(&shapes);
            let mut c2 = gen_cfg(&mut rng, flavour, w2, h2);
            c2.tr = cfg.tr.wrapping_add(2 + step as u8);
            c2.wide_levels = false;
            let b2 = gen_intra(&mut rng, &c2).encode();
            rep.evaluations += 1;
            let coords2 = || J::obj().set("property", "C13").set("tier", ctx.tier_name()).set("seed", ctx.seed).set("stage", ctx.stage.clone()).set("w", w).set("h", h).set("k", k).set("what", format!("same-area run, step {}: {}x{}", step, w2, h2));
            match dec.decode(&b2) {
                Outcome::Ok => {
                    if !pipeline(&dec, w2, h2, c2.quant, rep, &coords2) {
                        return;
                    }
                    rep.count("same_area_reshaped_pictures_postprocessed");
                }
                Outcome::Panic { msg, loc } => {
                    rep.violation(format!("panic@{}", loc), format!("{}x{} picture in a same-area run after {}x{} panicked: {}", w2, h2, w, h, msg), coords2());
                    return;
                }
                Outcome::Err(e) => rep.count(&format!("skipped:reshaped:{}", e)),
            }
        }
    }
    // standard mode: a predicted picture of intra macroblocks only that does not restate the format (UFEP = 000):
    // its size is the one in force, and it must be post-processable like any other picture
    if flavour == Flavour::StdPlus && rng.chance(2, 3) {
        let mut c2 = cfg.clone();
        c2.tr = cfg.tr.wrapping_add(3);
        let mut q = gen_intra(&mut rng, &c2);
        if let crate::model::syntax::Hdr::Std(hd) = &mut q.hdr {
            hd.inter = true;
            if let Some(pl) = hd.plus.as_mut() {
                pl.ptype = 1;
            }
        }
        if drop_format(&mut q) {
            rep.evaluations += 1;
            let coords2 = || J::obj().set("property", "C13").set("tier", ctx.tier_name()).set("seed", ctx.seed).set("stage", ctx.stage.clone()).set("w", w).set("h", h).set("k", k).set("what", "format-less intra-only predicted picture");
            match dec.decode(&q.encode()) {
                Outcome::Ok => {
                    let r = crate::util::catch(|| pipeline(&dec, w, h, c2.quant, rep, &coords2));
                    match r {
                        Ok(true) => rep.count("formatless_intra_only_pictures_postprocessed"),
                        Ok(false) => return,
                        Err(p) => {
                            rep.violation(format!("panic@{}", p.loc), format!("reading the planes of a format-less predicted picture panicked: {}", p.msg), coords2());
                            return;
                        }
                    }
                }
                Outcome::Panic { msg, loc } => {
                    rep.violation(format!("panic@{}", loc), format!("format-less intra-only predicted picture panicked: {}", msg), coords2());
                    return;
                }
                Outcome::Err(e) => rep.count(&format!("skipped:formatless:{}", e)),
            }
        }
    }
    // a predicted picture of another size (same width, other height, or the other way round) whose macroblocks
    // are all not coded: it cannot be predicted and is refused - but if a decoder does accept it, what it
    // exposes must still be a picture of the size its header states
    if rng.chance(1, 6) {
        let (w2, h2) = if rng.chance(1, 2) { (w, if flavour.sorenson() { h + 1 + rng.below(20) as usize } else { h + 4 * (1 + rng.below(5) as usize) }) } else { (if flavour.sorenson() { w + 1 + rng.below(20) as usize } else { w + 4 * (1 + rng.below(5) as usize) }, h) };
        let mut c2 = gen_cfg(&mut rng, flavour, w2, h2);
        c2.tr = cfg.tr.wrapping_add(5);
        let hdr = make_header(&c2, if flavour.sorenson() && rng.chance(1, 2) { 2 } else { 1 }, &mut rng);
        let n = ((w2 + 15) / 16) * ((h2 + 15) / 16);
        let keep = if rng.chance(1, 2) { n } else { rng.below(n as u64 + 1) as usize };
        let p2 = crate::model::syntax::SymPicture { hdr, w: w2, h: h2, mbs: (0..keep).map(|_| crate::model::syntax::SymMb::NotCoded).collect(), stuffing: vec![] };
        rep.evaluations += 1;
        let coords2 = || J::obj().set("property", "C13").set("tier", ctx.tier_name()).set("seed", ctx.seed).set("stage", ctx.stage.clone()).set("w", w).set("h", h).set("k", k).set("what", format!("all-skipped predicted picture {}x{}", w2, h2));
        match dec.decode(&p2.encode()) {
            Outcome::Ok => {
                if !pipeline(&dec, w2, h2, c2.quant, rep, &coords2) {
                    return;
                }
                rep.count("resized_skipped_picture_accepted_and_postprocessed");
            }
            Outcome::Panic { msg, loc } => {
                rep.violation(format!("panic@{}", loc), format!("all-skipped {}x{} picture after a {}x{} one panicked: {}", w2, h2, w, h, msg), coords2());
                return;
            }
            Outcome::Err(_) => rep.count("resized_skipped_picture_refused"),
        }
    }
    if rng.chance(1, 3) {
        let (w2, h2) = if flavour.sorenson() { (1 + rng.below(90) as usize, 1 + rng.below(90) as usize) } else { (4 * (1 + rng.below(22) as usize), 4 * (1 + rng.below(22) as usize)) };
        let mut c2 = gen_cfg(&mut rng, flavour, w2, h2);
        // the temporal reference moves on - or, one time in three, repeats that of the picture before
        c2.tr = if rng.chance(1, 3) { cfg.tr } else { cfg.tr.wrapping_add(1) };
        c2.wide_levels = false;
        let mut pic2 = gen_intra(&mut rng, &c2);
        let kind = rng.below(3) as u8;
        match &mut pic2.hdr {
            crate::model::syntax::Hdr::Sor(hd) => hd.ptype = kind,
            crate::model::syntax::Hdr::Std(hd) => {
                if kind == 1 {
                    hd.inter = true;
                    if let Some(pl) = hd.plus.as_mut() {
                        pl.ptype = 1;
                    }
                }
            }
        }
        let b2 = pic2.encode();
        rep.evaluations += 1;
        let coords2 = || J::obj().set("property", "C13").set("tier", ctx.tier_name()).set("seed", ctx.seed).set("stage", ctx.stage.clone()).set("w", w).set("h", h).set("k", k).set("what", format!("second picture {}x{} kind {}", w2, h2, kind));
        match dec.decode(&b2) {
            Outcome::Ok => {
                if pipeline(&dec, w2, h2, c2.quant, rep, &coords2) {
                    rep.count("resized_pictures_postprocessed");
                    rep.count(&format!("resized:{}", ["intra", "predicted-all-intra", "disposable-all-intra"][kind as usize]));
                    rep.distinct.insert(fnv64(&b2));
                }
            }
            Outcome::Panic { msg, loc } => rep.violation(format!("panic@{}", loc), format!("{}x{} picture after a {}x{} one panicked: {}", w2, h2, w, h, msg), coords2()),
            Outcome::Err(e) => rep.count(&format!("skipped:resized:{}", e)),
        }
    }
}

pub fn ladder_case(ctx: &Ctx, w: usize, h: usize, k: usize, rep: &mut Report) {
    let mut rng = Rng::new(ctx.seed ^ 0xC13AD, 1 + k as u64);
    let flavour = Flavour::Sor((k % 2) as u8);
    let cfg = super::ladder::cfg_for(&mut rng, flavour, w, h, 0);
    let pic = super::ladder::large_intra(&mut rng, &cfg);
    let bytes = pic.encode();
    rep.evaluations += 1;
    let coords = || J::obj().set("property", "C13").set("kind", "ladder").set("tier", ctx.tier_name()).set("seed", ctx.seed).set("stage", ctx.stage.clone()).set("w", w).set("h", h).set("k", k);
    let mut dec = Dec::new(true, false);
    match dec.decode(&bytes) {
        Outcome::Ok => {}
        o => {
            rep.count(&format!("ladder_skipped:decode:{}", o.short()));
            return;
        }
    }
    if pipeline(&dec, w, h, cfg.quant, rep, &coords) {
        rep.count("ladder_pictures_postprocessed");
        rep.distinct.insert(fnv64(&bytes));
    }
}

pub fn run(ctx: &Ctx) -> (Report, String) {
    let maxd: usize = if ctx.stage == "miri" { 12 } else if ctx.tier == Tier::Thorough { 200 } else { 80 };
    let maxd = (maxd as u64 * ctx.scale_pct.min(100) / 100).max(10) as usize;
    let ks: u64 = if ctx.miri() { 1 } else { 3 };
    let reps = par_shards(maxd, ctx.threads, |wi| {
        let mut rep = Report::new();
        let w = wi + 1;
        for h in 1..=maxd {
            for k in 0..ks {
                crate::mon::guarded(&mut rep, || J::obj().set("property", "C13").set("w", w).set("h", h), |rep| case(ctx, w, h, k, rep));
            }
        }
        rep
    });
    let mut rep = Report::merge_all(reps);
    if ctx.stage != "miri" {
        // boundary-value ladder: extreme dimensions, macroblock and chroma-sample counts around powers of two
        let mut lrng = Rng::new(ctx.seed ^ 0xC13AD, 0);
        let dims = super::ladder::boundary_dims(&mut lrng, ctx.tier == Tier::Thorough);
        let lr = par_shards(dims.len(), ctx.threads, |k| {
            let mut r = Report::new();
            let (w, h) = dims[k];
            crate::mon::guarded(&mut r, || J::obj().set("property", "C13").set("kind", "ladder").set("w", w).set("h", h), |r| ladder_case(ctx, w, h, k, r));
            r
        });
        rep.merge(Report::merge_all(lr));
        if ctx.is_main() {
            rep.require("ladder_pictures_postprocessed", dims.len() as u64 * 9 / 10);
        }
        // area ladder: sample counts beyond 2^24 / 2^26 with odd factors (anything computed through
        // 32-bit floats or 32-bit products goes wrong first here); skipped under the sanitizers
        if ctx.is_main() {
            let mut huge: Vec<(usize, usize)> = vec![(8194, 8194), (16386, 4102)];
            if ctx.tier == Tier::Thorough {
                huge.extend([(8194, 8198), (4098, 16390), (32770, 2054), (65535, 1031), (1029, 65535), (11587, 11587)]);
            }
            let n0 = dims.len();
            let hr = par_shards(huge.len(), ctx.threads.min(4), |k| {
                let mut r = Report::new();
                let (w, h) = huge[k];
                crate::mon::guarded(&mut r, || J::obj().set("property", "C13").set("kind", "ladder").set("w", w).set("h", h), |r| ladder_case(ctx, w, h, n0 + k, r));
                if r.get("ladder_pictures_postprocessed") > 0 {
                    r.count("huge_pictures_postprocessed");
                }
                r
            });
            rep.merge(Report::merge_all(hr));
            rep.require("huge_pictures_postprocessed", huge.len() as u64);
        }
        // the five standard source formats, signalled by their PTYPE format code (baseline header)
        for (fi, f) in STD_FIXED.iter().enumerate() {
            let (w, h) = (f.1, f.2);
            let mut rng = Rng::new(ctx.seed ^ 0xC13F, fi as u64);
            let cfg = super::ladder::cfg_for(&mut rng, Flavour::StdFixed, w, h, 0);
            let pic = super::ladder::large_intra(&mut rng, &cfg);
            let bytes = pic.encode();
            rep.evaluations += 1;
            let coords = || J::obj().set("property", "C13").set("kind", "std-format").set("tier", ctx.tier_name()).set("seed", ctx.seed).set("stage", ctx.stage.clone()).set("w", w).set("h", h);
            let mut dec = Dec::new(false, false);
            match dec.decode(&bytes) {
                Outcome::Ok => {
                    if pipeline(&dec, w, h, cfg.quant, &mut rep, &coords) {
                        rep.count("standard_format_pictures_postprocessed");
                    }
                }
                Outcome::Panic { msg, loc } => rep.violation(format!("panic@{}", loc), format!("baseline {}x{} picture panicked: {}", w, h, msg), coords()),
                Outcome::Err(e) => rep.count(&format!("skipped:std-format:{}", e)),
            }
        }
        if ctx.is_main() {
            rep.require("standard_format_pictures_postprocessed", 5);
        }
        for (w, h) in [(128, 96), (176, 144), (352, 288), (320, 240), (160, 120)] {
            for k in 0..ks {
                case(ctx, w, h, k, &mut rep);
            }
            rep.count("fixed_formats");
        }
    }
    rep.sample(4, || J::obj().set("sizes", format!("every (w,h) in 1..={0} x 1..={0} x {1} quantiser choices", maxd, ks)).set("pipeline", "decode -> deblock(Y), deblock(Cb), deblock(Cr) with QUANT_TO_STRENGTH[PQUANT] -> yuv420_to_rgba"));
    if ctx.is_main() && ctx.scale_pct == 100 {
        rep.require("pictures_postprocessed", (maxd * maxd * ks as usize) as u64 * 95 / 100);
        rep.require("p_pictures_postprocessed", 1000);
        rep.require("same_area_reshaped_pictures_postprocessed", 1000);
        rep.require("resized_skipped_picture_refused", 500);
        rep.require("formatless_intra_only_pictures_postprocessed", 80);
        for k in ["resized:intra", "resized:predicted-all-intra", "resized:disposable-all-intra"] {
            rep.require(k, 300);
        }
    }
    (rep, rule())
}

pub fn replay(ctx: &Ctx, j: &J, rep: &mut Report) {
    let g = |k: &str| j.get(k).and_then(|v| v.as_i64()).unwrap_or(1);
    if j.get("kind").and_then(|k| k.as_str()) == Some("ladder") {
        ladder_case(ctx, g("w") as usize, g("h") as usize, g("k") as usize, rep);
        return;
    }
    case(ctx, g("w") as usize, g("h") as usize, g("k") as u64, rep);
}
