//! C10 - the inverse DCT meets the H.263 Annex A (IEEE 1180 style) accuracy requirements.
//! Observation through the feature-gated re-export of the channel IDCT: coefficient
//! blocks are transformed onto planes pre-filled with 0, 255 and 128.

use crate::json::J;
use crate::model::recon::idct_f64;
use crate::report::Report;
use crate::util::{catch, par_shards, Rng};
use crate::{Ctx, Tier};
use h263_rs::verif::idct_channel;
use h263_rs::verif::types::DecodedDctBlock;

pub fn rule() -> String {
    "cases = coefficient blocks: the Annex A data sets (ranges (-256..255), (-5..5), (-300..300) and their negations, 10000 blocks each from the prescribed LCG, seed 1 plus further seeds), forward-transformed in f64, rounded and clipped to -2048..2047, then transformed by the real channel IDCT; plus all 4096 DC-only blocks and random first-row / first-column blocks over -2048..2047 through the dedicated shortcut variants; judged by the five Annex A statistics and the peak-error bound; distinct by hash of the coefficient block; non-trivial = block has a non-zero coefficient".into()
}

struct Lcg(i64);
impl Lcg {
    /// The generator of IEEE 1180 / H.263 Annex A.
    fn rand(&mut self, l: i64, h: i64) -> i64 {
        self.0 = (self.0.wrapping_mul(1103515245).wrapping_add(12345)) & 0xffff_ffff;
        // C `long` is 32 bits in the reference program: keep it as a signed 32-bit value
        let randx = self.0 as u32 as i32 as i64;
        self.0 = randx;
        let i = randx & 0x7fff_fffe;
        let x = (i as f64) / (0x7fff_ffff as f64) * ((l + h + 1) as f64);
        (x as i64) - l
    }
}

fn fdct(p: &[[f64; 8]; 8]) -> [[f64; 8]; 8] {
    let mut out = [[0.0; 8]; 8];
    for v in 0..8 {
        for u in 0..8 {
            let cu = if u == 0 { std::f64::consts::FRAC_1_SQRT_2 } else { 1.0 };
            let cv = if v == 0 { std::f64::consts::FRAC_1_SQRT_2 } else { 1.0 };
            let mut s = 0.0;
            for y in 0..8 {
                for x in 0..8 {
                    s += p[y][x] * ((2 * x + 1) as f64 * u as f64 * std::f64::consts::PI / 16.0).cos() * ((2 * y + 1) as f64 * v as f64 * std::f64::consts::PI / 16.0).cos();
                }
            }
            out[v][u] = s * cu * cv / 4.0;
        }
    }
    out
}

fn round_half_away(v: f64) -> i32 {
    if v >= 0.0 {
        (v + 0.5).floor() as i32
    } else {
        -((-v + 0.5).floor() as i32)
    }
}

/// Run `blocks` through the real IDCT with the given prefill; returns residuals per block.
/// Observed residual range depends on the prefill (see DESIGN.md C10).
fn real_idct(blocks: &[DecodedDctBlock], prefill: u8) -> Vec<[[i32; 8]; 8]> {
    let n = blocks.len();
    let mut plane = vec![prefill; n * 64];
    idct_channel(blocks, &mut plane, n, n * 8);
    (0..n)
        .map(|b| {
            let mut o = [[0i32; 8]; 8];
            for y in 0..8 {
                for x in 0..8 {
                    o[y][x] = plane[y * n * 8 + b * 8 + x] as i32 - prefill as i32;
                }
            }
            o
        })
        .collect()
}

/// Residual in -255..=255 reconstructed from the 0-prefill and 255-prefill observations.
fn real_residuals(blocks: &[DecodedDctBlock]) -> Vec<[[i32; 8]; 8]> {
    let lo = real_idct(blocks, 0);
    let hi = real_idct(blocks, 255);
    lo.iter()
        .zip(hi.iter())
        .map(|(a, b)| {
            let mut o = [[0i32; 8]; 8];
            for y in 0..8 {
                for x in 0..8 {
                    o[y][x] = a[y][x] + b[y][x];
                }
            }
            o
        })
        .collect()
}

#[derive(Default)]
struct Stats {
    n: u64,
    peak: i32,
    se: [[f64; 8]; 8],
    e: [[f64; 8]; 8],
}

fn full_block(c: &[[i32; 8]; 8]) -> DecodedDctBlock {
    let mut f = [[0f32; 8]; 8];
    for v in 0..8 {
        for u in 0..8 {
            f[v][u] = c[v][u] as f32;
        }
    }
    DecodedDctBlock::Full(f)
}

fn reference(c: &[[i32; 8]; 8]) -> [[i32; 8]; 8] {
    let mut f = [[0f64; 8]; 8];
    for v in 0..8 {
        for u in 0..8 {
            f[v][u] = c[v][u] as f64;
        }
    }
    let r = idct_f64(&f);
    let mut o = [[0i32; 8]; 8];
    for y in 0..8 {
        for x in 0..8 {
            o[y][x] = round_half_away(r[y][x]).clamp(-256, 255);
        }
    }
    o
}

fn annex_a_dataset(seed: i64, l: i64, h: i64, negate: bool, rep: &mut Report) {
    let name = format!("seed{}:range(-{},{}){}", seed, l, h, if negate { ":negated" } else { "" });
    let coords = || J::obj().set("property", "C10").set("kind", "dataset").set("lcg_seed", seed).set("l", l).set("h", h).set("negate", negate);
    let mut lcg = Lcg(seed);
    let mut coefs: Vec<[[i32; 8]; 8]> = Vec::with_capacity(10000);
    for _ in 0..10000 {
        let mut p = [[0f64; 8]; 8];
        for row in p.iter_mut() {
            for v in row.iter_mut() {
                let r = lcg.rand(l, h);
                *v = if negate { -r } else { r } as f64;
            }
        }
        let f = fdct(&p);
        let mut c = [[0i32; 8]; 8];
        for v in 0..8 {
            for u in 0..8 {
                c[v][u] = round_half_away(f[v][u]).clamp(-2048, 2047);
            }
        }
        coefs.push(c);
    }
    let blocks: Vec<DecodedDctBlock> = coefs.iter().map(full_block).collect();
    let got = match catch(|| (real_residuals(&blocks), real_idct(&blocks, 128))) {
        Ok(g) => g,
        Err(p) => {
            rep.violation(format!("panic@{}", p.loc), format!("IDCT panicked on data set {}: {}", name, p.msg), coords());
            return;
        }
    };
    let mut st = Stats::default();
    let mut st128 = Stats::default();
    for (bi, c) in coefs.iter().enumerate() {
        let r = reference(c);
        for y in 0..8 {
            for x in 0..8 {
                // one code point (-256) is not observable: compare after clamping to +-255
                let e = got.0[bi][y][x].clamp(-255, 255) - r[y][x].clamp(-255, 255);
                st.peak = st.peak.max(e.abs());
                st.se[y][x] += (e * e) as f64;
                st.e[y][x] += e as f64;
                // mid-grey prediction observes -128..127
                let e2 = got.1[bi][y][x].clamp(-128, 127) - r[y][x].clamp(-128, 127);
                st128.peak = st128.peak.max(e2.abs());
                st128.se[y][x] += (e2 * e2) as f64;
                st128.e[y][x] += e2 as f64;
            }
        }
        st.n += 1;
        st128.n += 1;
        rep.distinct.insert(crate::util::fnv64(&c.iter().flatten().flat_map(|v| (*v as i16).to_le_bytes()).collect::<Vec<u8>>()));
    }
    rep.evaluations += 10000;
    rep.count("annex_a_datasets");
    for (tag, s) in [("zero/255-prediction", &st), ("mid-grey-prediction", &st128)] {
        let n = s.n as f64;
        let pmse = s.se.iter().flatten().cloned().fold(0.0, f64::max) / n;
        let omse = s.se.iter().flatten().sum::<f64>() / (64.0 * n);
        let pme = s.e.iter().flatten().map(|v| v.abs()).fold(0.0, f64::max) / n;
        let ome = (s.e.iter().flatten().sum::<f64>() / (64.0 * n)).abs();
        rep.max("worst_peak_error", s.peak as f64);
        rep.max("worst_pixel_mse", pmse);
        rep.max("worst_overall_mse", omse);
        rep.max("worst_pixel_mean_error", pme);
        rep.max("worst_overall_mean_error", ome);
        let checks = [("peak-error", s.peak as f64, 1.0), ("pixel-mse", pmse, 0.06), ("overall-mse", omse, 0.02), ("pixel-mean-error", pme, 0.015), ("overall-mean-error", ome, 0.0015)];
        for (what, v, lim) in checks {
            if v > lim {
                rep.violation(format!("annex-a/{}", what), format!("data set {} ({}): {} = {} exceeds {}", name, tag, what, v, lim), coords());
            }
        }
    }
    rep.sample(6, || J::obj().set("dataset", name.clone()).set("blocks", 10000).set("first_block_coefficients_row0", format!("{:?}", coefs[0][0])));
}

fn shape_blocks(rep: &mut Report, rng: &mut Rng, n_rand: u64) {
    let coords = |what: &str| J::obj().set("property", "C10").set("kind", "shape").set("what", what);
    // all-zero input
    for blk in [DecodedDctBlock::Zero, DecodedDctBlock::Full([[0.0; 8]; 8]), DecodedDctBlock::Dc(0.0), DecodedDctBlock::Horiz([0.0; 8]), DecodedDctBlock::Vert([0.0; 8])] {
        for prefill in [0u8, 77, 255] {
            let r = real_idct(&[blk], prefill);
            rep.evaluations += 1;
            if r[0].iter().flatten().any(|v| *v != 0) {
                rep.violation("zero-block", format!("all-zero block {:?} changed the output (prefill {})", blk, prefill), coords("zero"));
            } else {
                rep.count("zero_blocks_ok");
            }
        }
    }
    // every DC-only value through the Dc shortcut and through Full
    let dcs: Vec<i32> = (-2048..=2047).collect();
    for (variant, blocks) in [("Dc", dcs.iter().map(|d| DecodedDctBlock::Dc(*d as f32)).collect::<Vec<_>>()), ("Full", dcs.iter().map(|d| { let mut c = [[0i32; 8]; 8]; c[0][0] = *d; full_block(&c) }).collect::<Vec<_>>())] {
        let got = real_residuals(&blocks);
        for (i, d) in dcs.iter().enumerate() {
            let mut c = [[0i32; 8]; 8];
            c[0][0] = *d;
            let r = reference(&c);
            rep.evaluations += 1;
            let peak = (0..64).map(|k| (got[i][k / 8][k % 8].clamp(-255, 255) - r[k / 8][k % 8].clamp(-255, 255)).abs()).max().unwrap();
            if peak > 1 {
                rep.violation(format!("shape/{}-dc/peak", variant), format!("DC-only block {} via {}: peak error {}", d, variant, peak), coords("dc"));
                break;
            }
            rep.count(&format!("shape_blocks:{}:dc", variant));
            rep.max("worst_peak_error_shapes", peak as f64);
        }
    }
    // random first-row and first-column blocks
    let batch = 500usize;
    let mut done = 0u64;
    while done < n_rand {
        for shape in ["Horiz", "Vert"] {
            let mut cs: Vec<[[i32; 8]; 8]> = vec![];
            let mut blocks = vec![];
            for _ in 0..batch {
                let mut c = [[0i32; 8]; 8];
                let mut line = [0f32; 8];
                let amp = *rng.pick(&[8i64, 64, 512, 2047]);
                for k in 0..8 {
                    let v = if rng.chance(1, 3) { 0 } else { rng.range(-amp - 1, amp) as i32 };
                    line[k] = v as f32;
                    if shape == "Horiz" {
                        c[0][k] = v;
                    } else {
                        c[k][0] = v;
                    }
                }
                cs.push(c);
                blocks.push(if shape == "Horiz" { DecodedDctBlock::Horiz(line) } else { DecodedDctBlock::Vert(line) });
            }
            let got = real_residuals(&blocks);
            for (i, c) in cs.iter().enumerate() {
                let r = reference(c);
                rep.evaluations += 1;
                let peak = (0..64).map(|k| (got[i][k / 8][k % 8].clamp(-255, 255) - r[k / 8][k % 8].clamp(-255, 255)).abs()).max().unwrap();
                if peak > 1 {
                    rep.violation(format!("shape/{}/peak", shape), format!("{} block {:?}: peak error {}", shape, if shape == "Horiz" { c[0].to_vec() } else { c.iter().map(|r| r[0]).collect() }, peak), coords(shape));
                    return;
                }
                rep.count(&format!("shape_blocks:{}", shape));
                rep.max("worst_peak_error_shapes", peak as f64);
                rep.distinct.insert(crate::util::fnv64(&c.iter().flatten().flat_map(|v| (*v as i16).to_le_bytes()).chain([shape.len() as u8]).collect::<Vec<u8>>()));
            }
        }
        done += batch as u64;
    }
}

/// The transform of a block must not depend on which blocks were transformed before it in the same
/// call: sequences drawn (with many repeats) from a small pool of blocks of all five variants.
fn mixed_sequences(rep: &mut Report, rng: &mut Rng, n_seq: u64) {
    let coords = || J::obj().set("property", "C10").set("kind", "mixed");
    for _ in 0..n_seq {
        // pool: Annex-A-like full blocks, first-row, first-column, DC and zero blocks
        let mut pool: Vec<(DecodedDctBlock, [[i32; 8]; 8])> = vec![];
        for k in 0..6 {
            let mut c = [[0i32; 8]; 8];
            match k % 5 {
                0 => {
                    let mut p = [[0f64; 8]; 8];
                    for row in p.iter_mut() {
                        for v in row.iter_mut() {
                            *v = rng.range(-256, 255) as f64;
                        }
                    }
                    let f = fdct(&p);
                    for v in 0..8 {
                        for u in 0..8 {
                            c[v][u] = round_half_away(f[v][u]).clamp(-2048, 2047);
                        }
                    }
                    pool.push((full_block(&c), c));
                }
                1 => {
                    let mut line = [0f32; 8];
                    for u in 0..8 {
                        let v = if rng.chance(1, 3) { 0 } else { rng.range(-600, 600) as i32 };
                        c[0][u] = v;
                        line[u] = v as f32;
                    }
                    pool.push((DecodedDctBlock::Horiz(line), c));
                }
                2 => {
                    let mut line = [0f32; 8];
                    for v in 0..8 {
                        let x = if rng.chance(1, 3) { 0 } else { rng.range(-600, 600) as i32 };
                        c[v][0] = x;
                        line[v] = x as f32;
                    }
                    pool.push((DecodedDctBlock::Vert(line), c));
                }
                3 => {
                    let d = rng.range(-2048, 2047) as i32;
                    c[0][0] = d;
                    pool.push((DecodedDctBlock::Dc(d as f32), c));
                }
                _ => pool.push((DecodedDctBlock::Zero, c)),
            }
        }
        let seq: Vec<usize> = (0..120).map(|_| rng.below(pool.len() as u64) as usize).collect();
        let blocks: Vec<DecodedDctBlock> = seq.iter().map(|i| pool[*i].0).collect();
        let got = match catch(|| real_residuals(&blocks)) {
            Ok(g) => g,
            Err(p) => {
                rep.violation(format!("panic@{}", p.loc), format!("IDCT panicked on a mixed sequence: {}", p.msg), coords());
                return;
            }
        };
        let refs: Vec<[[i32; 8]; 8]> = pool.iter().map(|p| reference(&p.1)).collect();
        for (pos, i) in seq.iter().enumerate() {
            rep.evaluations += 1;
            let r = &refs[*i];
            let peak = (0..64).map(|k| (got[pos][k / 8][k % 8].clamp(-255, 255) - r[k / 8][k % 8].clamp(-255, 255)).abs()).max().unwrap();
            if peak > 1 {
                let kinds: Vec<&str> = seq[..=pos].iter().rev().take(4).map(|j| match pool[*j].0 {
                    DecodedDctBlock::Zero => "Zero",
                    DecodedDctBlock::Dc(_) => "Dc",
                    DecodedDctBlock::Horiz(_) => "Horiz",
                    DecodedDctBlock::Vert(_) => "Vert",
                    DecodedDctBlock::Full(_) => "Full",
                }).collect();
                rep.violation("sequence-dependence", format!("block at position {} of one channel call (pool entry {}) is {} off its reference; the last blocks before it were (newest first) {:?}", pos, i, peak, kinds), coords());
                return;
            }
            rep.count("mixed_sequence_blocks");
        }
        // the same blocks arranged as a grid over a cropped plane, as in a decoded picture whose width
        // and height are not multiples of the block size (sometimes with whole blocks outside): every
        // visible sample must receive exactly the residual it gets in the one-row arrangement
        {
            let bw = *rng.pick(&[1usize, 2, 3, 4, 5, 6, 8, 10, 12]);
            let bh = 120 / bw;
            let nb = bw * bh;
            let spl = (bw * 8).saturating_sub(rng.below(if bw > 1 { 16 } else { 8 }) as usize).max(1);
            let rows = (bh * 8).saturating_sub(rng.below(if bh > 1 { 16 } else { 8 }) as usize).max(1);
            let grid: Vec<DecodedDctBlock> = blocks[..nb].to_vec();
            let run = |prefill: u8| -> Vec<u8> {
                let mut plane = vec![prefill; spl * rows];
                idct_channel(&grid, &mut plane, bw, spl);
                plane
            };
            match catch(|| (run(0), run(255))) {
                Err(p) => {
                    rep.violation(format!("panic@{}", p.loc), format!("IDCT panicked on a {}x{}-block grid over a {}x{} plane: {}", bw, bh, spl, rows, p.msg), coords());
                    return;
                }
                Ok((lo, hi)) => {
                    for y in 0..rows {
                        for x in 0..spl {
                            let b = (y / 8) * bw + x / 8;
                            let resid = lo[y * spl + x] as i32 + hi[y * spl + x] as i32 - 255;
                            let want = got[b][y % 8][x % 8];
                            if resid != want {
                                rep.violation("geometry-dependence", format!("{}x{}-block grid over a {}x{} plane: sample ({},{}) of block {} gets residual {} but {} in the one-row arrangement", bw, bh, spl, rows, x, y, b, resid, want), coords());
                                return;
                            }
                        }
                    }
                    // the same grid over a *structured* prediction (the residual is added onto what is there):
                    // rows or columns of zeros next to textured ones, letterbox tops, random bytes
                    let kind = rng.below(8);
                    let mut pre = vec![0u8; spl * rows];
                    rng.fill(&mut pre);
                    for (i, v) in pre.iter_mut().enumerate() {
                        let (x, y) = (i % spl, i / spl);
                        match kind {
                            0 => {}
                            1 if y % 8 == 0 => *v = 0,
                            2 if x % 8 == 0 => *v = 0,
                            3 if y % 8 == 0 || x % 8 == 0 => *v = if (x + y) % 16 < 8 { 0 } else { 255 },
                            4 if y % 8 < 4 => *v = 0,
                            _ => {}
                        }
                    }
                    // kinds 5-7: structure inside each line - samples equal in pairs (pixel-doubled content), every
                    // line of a block starting with the same value, a vertical edge at an even column
                    for y in 0..rows {
                        for x in 0..spl {
                            let i = y * spl + x;
                            match kind {
                                5 => pre[i] = pre[y * spl + (x & !1)],
                                6 if x % 8 == 0 => pre[i] = pre[(y & !7) * spl + x],
                                7 => pre[i] = if x % 8 < 2 * (1 + (y / 8 + x / 8) % 3) { 40 } else { 200 },
                                _ => {}
                            }
                        }
                    }
                    let mut plane = pre.clone();
                    if let Err(p) = catch(|| idct_channel(&grid, &mut plane, bw, spl)) {
                        rep.violation(format!("panic@{}", p.loc), format!("IDCT panicked on a structured prediction: {}", p.msg), coords());
                        return;
                    }
                    for y in 0..rows {
                        for x in 0..spl {
                            let b = (y / 8) * bw + x / 8;
                            let want = (pre[y * spl + x] as i32 + refs[seq[b]][y % 8][x % 8]).clamp(0, 255);
                            let g = plane[y * spl + x] as i32;
                            if (g - want).abs() > 1 {
                                rep.violation("prediction-dependence", format!("{}x{}-block grid over a {}x{} prediction of kind {}: sample ({},{}) of block {} is {} but prediction {} + reference residual {} gives {}", bw, bh, spl, rows, kind, x, y, b, g, pre[y * spl + x], refs[seq[b]][y % 8][x % 8], want), coords());
                                return;
                            }
                        }
                    }
                    rep.count("structured_prediction_planes");
                    rep.count("cropped_grid_planes");
                    if spl % 8 != 0 {
                        rep.count("cropped_grid_planes_partial_columns");
                    }
                    if spl + 8 <= bw * 8 || rows + 8 <= bh * 8 {
                        rep.count("cropped_grid_planes_with_blocks_outside");
                    }
                }
            }
        }
        rep.distinct.insert(crate::util::fnv64(&seq.iter().map(|s| *s as u8).collect::<Vec<u8>>()) ^ rng.next());
    }
}

/// Structured `Full` blocks (one coefficient; two coefficients of equal magnitude at every pair of
/// positions and sign combination) whose ideal output stays within -256..255, i.e. blocks that are the
/// transform of legitimate sample data like the Annex A inputs: peak error at most 1.
fn structured_full_blocks(rep: &mut Report, part: usize, parts: usize) {
    let coords = || J::obj().set("property", "C10").set("kind", "structured");
    let mut cases: Vec<[[i32; 8]; 8]> = vec![];
    let mags = [1i32, 7, 40, 100, 255, 600];
    let mut idx = 0usize;
    for p1 in 0..64usize {
        for p2 in p1..64usize {
            idx += 1;
            if idx % parts != part {
                continue;
            }
            for m in mags {
                for signs in 0..4 {
                    let mut c = [[0i32; 8]; 8];
                    c[p1 / 8][p1 % 8] = if signs & 1 == 0 { m } else { -m };
                    if p2 != p1 {
                        c[p2 / 8][p2 % 8] = if signs & 2 == 0 { m } else { -m };
                    } else if signs >= 2 {
                        continue;
                    }
                    cases.push(c);
                }
            }
        }
    }
    // weak blocks: many small coefficients whose contributions add up - the transform of a block with one
    // to three small samples (every position; what the Annex A -5..5 sets contain now and then), and dense
    // blocks of coefficients in -1..1 / -2..2
    if part == 0 {
        let mut rng = Rng::new(0xC10A, 0);
        for pos in 0..64usize {
            for amp in [-8i32, -5, -4, -3, 3, 4, 5, 8] {
                let mut p = [[0f64; 8]; 8];
                p[pos / 8][pos % 8] = amp as f64;
                if pos % 3 == 1 {
                    p[(pos / 8 + 3) % 8][(pos % 8 + 5) % 8] = (amp / 2) as f64;
                }
                let f = fdct(&p);
                let mut c = [[0i32; 8]; 8];
                for v in 0..8 {
                    for u in 0..8 {
                        c[v][u] = round_half_away(f[v][u]);
                    }
                }
                cases.push(c);
                rep.count("weak_blocks");
            }
        }
        for k in 0..600 {
            let lim = 1 + (k % 2) as i64;
            let mut c = [[0i32; 8]; 8];
            for v in c.iter_mut().flatten() {
                *v = rng.range(-lim, lim) as i32;
            }
            cases.push(c);
            rep.count("weak_blocks");
        }
    }
    for chunk in cases.chunks(512) {
        let blocks: Vec<DecodedDctBlock> = chunk.iter().map(full_block).collect();
        let got = match catch(|| real_residuals(&blocks)) {
            Ok(g) => g,
            Err(p) => {
                rep.violation(format!("panic@{}", p.loc), format!("IDCT panicked on structured blocks: {}", p.msg), coords());
                return;
            }
        };
        for (i, c) in chunk.iter().enumerate() {
            let r = reference(c);
            if r.iter().flatten().any(|v| *v <= -255 || *v >= 255) {
                rep.count("structured_blocks_out_of_sample_range_skipped");
                continue;
            }
            rep.evaluations += 1;
            let peak = (0..64).map(|k| (got[i][k / 8][k % 8] - r[k / 8][k % 8]).abs()).max().unwrap();
            if peak > 1 {
                let nz: Vec<(usize, usize, i32)> = (0..64).filter(|k| c[k / 8][k % 8] != 0).map(|k| (k / 8, k % 8, c[k / 8][k % 8])).collect();
                rep.violation("structured-full-block/peak", format!("full block with coefficients (v,u,value) {:?}: peak error {} against the double-precision reference", nz, peak), coords());
                return;
            }
            rep.count("structured_full_blocks");
            rep.distinct_enumerated += 1;
        }
    }
}

/// Full-range blocks (every value a dequantiser can deliver, -2048..2047) whose reconstruction comes back
/// into the sample range at some samples: separable blocks with a near-maximal horizontal (or vertical)
/// profile - sign pattern aligned with one basis column, random, or all-equal - times a profile in the
/// other direction that cancels at one line; plus dense random full-range blocks. Judged sample by
/// sample: the observed residual is clamp(real, -255, 255), so |observed - clamp(reference)| <= 1
/// wherever |real - reference| <= 1, clipped or not.
fn extreme_blocks(rep: &mut Report, rng: &mut Rng, n: u64) {
    let coords = || J::obj().set("property", "C10").set("kind", "extreme");
    let mut t = [[0f64; 8]; 8]; // t[x][u]
    for x in 0..8 {
        for u in 0..8 {
            let cu = if u == 0 { 0.5f64.sqrt() } else { 1.0 };
            t[x][u] = 0.5 * cu * ((2 * x + 1) as f64 * u as f64 * std::f64::consts::PI / 16.0).cos();
        }
    }
    let mut cases: Vec<[[i32; 8]; 8]> = vec![];
    for k in 0..n {
        let mut c = [[0i32; 8]; 8];
        if k % 4 == 3 {
            // dense random full-range block, sometimes with a few rows only
            let rows = if rng.chance(1, 2) { 8 } else { rng.range(1, 4) as usize };
            for _ in 0..rows {
                let v = rng.below(8) as usize;
                for u in 0..8 {
                    c[v][u] = rng.range(-2048, 2047) as i32;
                }
            }
            if rng.chance(1, 2) {
                let mut tr = [[0i32; 8]; 8];
                for v in 0..8 {
                    for u in 0..8 {
                        tr[u][v] = c[v][u];
                    }
                }
                c = tr;
            }
            cases.push(c);
            continue;
        }
        // strong profile h (length 8) along one direction
        let x0 = rng.below(8) as usize;
        let mode = rng.below(4);
        let mut h = [0f64; 8];
        for u in 0..8 {
            let mag = match rng.below(8) % 5 {
                0 => 2047,
                1 => 2048,
                2 => rng.range(1900, 2047),
                _ => rng.range(1000, 2047),
            } as f64;
            let sign = match mode {
                0 => t[x0][u].signum(),
                1 => -t[x0][u].signum(),
                2 => 1.0,
                _ => if rng.chance(1, 2) { 1.0 } else { -1.0 },
            };
            h[u] = mag * sign;
        }
        // weak profile a: a[v0] = 1 and one to three other entries that bring line y0 back to `target / peak`
        let peak: f64 = (0..8).map(|x| (0..8).map(|u| t[x][u] * h[u]).sum::<f64>().abs()).fold(0.0, f64::max);
        let v0 = if rng.chance(2, 3) { 0 } else { rng.below(8) as usize };
        let y0 = rng.below(8) as usize;
        let target = rng.range(-230, 230) as f64 / peak.max(1.0);
        let mut a = [0f64; 8];
        a[v0] = if rng.chance(1, 2) { 1.0 } else { -1.0 };
        let others: Vec<usize> = (0..8).filter(|v| *v != v0 && t[y0][*v].abs() > 0.15).collect();
        let n_other = (1 + rng.below(3) as usize).min(others.len());
        let mut chosen = vec![];
        while chosen.len() < n_other {
            let v = *rng.pick(&others);
            if !chosen.contains(&v) {
                chosen.push(v);
            }
        }
        // split the amount to cancel among the chosen entries
        let need = target - t[y0][v0] * a[v0];
        let mut weights: Vec<f64> = chosen.iter().map(|_| 0.2 + rng.below(100) as f64 / 100.0).collect();
        let ws: f64 = weights.iter().sum();
        for w in weights.iter_mut() {
            *w /= ws;
        }
        for (v, w) in chosen.iter().zip(weights.iter()) {
            a[*v] = need * w / t[y0][*v];
        }
        let transpose = rng.chance(1, 2);
        for v in 0..8 {
            for u in 0..8 {
                let val = round_half_away(a[v] * h[u]).clamp(-2048, 2047);
                if transpose {
                    c[u][v] = val;
                } else {
                    c[v][u] = val;
                }
            }
        }
        cases.push(c);
    }
    for chunk in cases.chunks(256) {
        let blocks: Vec<DecodedDctBlock> = chunk.iter().map(full_block).collect();
        let got = match catch(|| real_residuals(&blocks)) {
            Ok(g) => g,
            Err(p) => {
                rep.violation(format!("panic@{}", p.loc), format!("IDCT panicked on full-range blocks: {}", p.msg), coords());
                return;
            }
        };
        for (i, c) in chunk.iter().enumerate() {
            let r = reference(c);
            rep.evaluations += 1;
            let mut inside = 0u64;
            let mut peak = 0;
            for k in 0..64 {
                let want = r[k / 8][k % 8].clamp(-255, 255);
                if want.abs() < 255 {
                    inside += 1;
                }
                peak = peak.max((got[i][k / 8][k % 8] - want).abs());
            }
            if peak > 1 {
                rep.violation("extreme-full-block/peak", format!("full-range block {:?}: peak error {} against the double-precision reference (clipped to the observable -255..255)", c, peak), coords());
                return;
            }
            rep.count("extreme_blocks");
            rep.add("extreme_block_samples_inside_range", inside);
            if inside > 0 {
                rep.count("extreme_blocks_with_unclipped_samples");
            }
            let big = c.iter().flatten().filter(|v| v.abs() >= 1900).count();
            if big >= 8 {
                rep.count("extreme_blocks_with_8_or_more_near_maximal_coefficients");
            }
            rep.distinct.insert(crate::util::fnv64(&c.iter().flatten().flat_map(|v| (*v as i16).to_le_bytes()).collect::<Vec<u8>>()));
        }
    }
}

pub fn run(ctx: &Ctx) -> (Report, String) {
    let seeds: Vec<i64> = if ctx.tier == Tier::Thorough { (1..=300).collect() } else { vec![1, 2, 3, 4, 5, 6] };
    let seeds: Vec<i64> = if ctx.scale_pct < 100 { seeds.into_iter().take(1).collect() } else { seeds };
    let mut jobs: Vec<(i64, i64, i64, bool)> = vec![];
    for s in &seeds {
        for (l, h) in [(256, 255), (5, 5), (300, 300)] {
            for neg in [false, true] {
                jobs.push((*s, l, h, neg));
            }
        }
    }
    let n_rand = ctx.n(100_000, 4_000_000);
    // thorough: 56 more shards of random shortcut blocks and mixed sequences
    let extra = if ctx.tier == Tier::Thorough && ctx.scale_pct == 100 { 56 } else { 0 };
    let reps = par_shards(jobs.len() + 8 + extra, ctx.threads, |i| {
        let mut rep = Report::new();
        crate::mon::guarded(&mut rep, || J::obj().set("property", "C10").set("shard", i), |rep| {
            if i < jobs.len() {
                let (s, l, h, neg) = jobs[i];
                annex_a_dataset(s, l, h, neg, rep);
            } else {
                let mut rng = Rng::new(ctx.seed ^ 0xC10, i as u64);
                shape_blocks(rep, &mut rng, n_rand / 8);
                mixed_sequences(rep, &mut rng, ctx.n(200, 4000));
                extreme_blocks(rep, &mut rng, ctx.n(4000, 100_000));
                if i < jobs.len() + 8 {
                    structured_full_blocks(rep, i - jobs.len(), 8);
                }
            }
        });
        rep
    });
    let mut rep = Report::merge_all(reps);
    if ctx.is_main() {
        rep.require("annex_a_datasets", 6 * seeds.len() as u64);
        rep.require("shape_blocks:Dc:dc", 4096);
        rep.require("shape_blocks:Horiz", n_rand / 16 * (8 + extra as u64));
        rep.require("shape_blocks:Vert", n_rand / 16 * (8 + extra as u64));
        rep.require("zero_blocks_ok", 15);
        rep.require("mixed_sequence_blocks", 100_000);
        rep.require("cropped_grid_planes", 1000);
        rep.require("structured_prediction_planes", 1000);
        rep.require("cropped_grid_planes_partial_columns", 500);
        rep.require("cropped_grid_planes_with_blocks_outside", 100);
        rep.require("structured_full_blocks", 30_000);
        rep.require("weak_blocks", 1000);
        rep.require("extreme_blocks_with_unclipped_samples", 10_000);
        rep.require("extreme_blocks_with_8_or_more_near_maximal_coefficients", 5_000);
    }
    (rep, rule())
}

pub fn replay(j: &J, rep: &mut Report) {
    if j.get("kind").and_then(|k| k.as_str()) == Some("dataset") {
        let g = |k: &str| j.get(k).and_then(|v| v.as_i64()).unwrap_or(0);
        annex_a_dataset(g("lcg_seed"), g("l"), g("h"), matches!(j.get("negate"), Some(J::Bool(true))), rep);
    } else {
        let mut rng = Rng::new(1, 1);
        shape_blocks(rep, &mut rng, 20000);
    }
}
