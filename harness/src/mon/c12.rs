//! C12 - motion vectors are reconstructed exactly for every predictor/differential pair,
//! every four-vector sum and every neighbour configuration. Black box through pixels:
//! a textured reference, zero residual, so the decoded planes determine the vectors.

use super::pcheck::*;
use crate::gen::*;
use crate::json::J;
use crate::model::recon::{chroma_mv, mc_block, wrap_mv, Planes};
use crate::model::syntax::*;
use crate::model::tables::MbKind;
use crate::report::Report;
use crate::sut::{Dec, Outcome};
use crate::util::{fnv64, par_shards, Rng};
use crate::{Ctx, Tier};

pub fn rule() -> String {
    "cases = directed P pictures over a textured reference with zero residual: (a) all 64x64 (predictor, differential) pairs per component on the centre macroblock of a 3x3-macroblock picture, (b) INTER4V macroblocks whose four vectors sum to every value -128..124 per component (several decompositions each), (c) every neighbour configuration {position class} x {kind of left/above/above-right neighbour} x {one/four vectors} with pairwise distinct candidate vectors; each compared with the model prediction; distinct by (part, parameters); all are non-trivial (identifiability of the displacement on the reference is asserted)".into()
}

fn empty_blocks() -> [SymBlock; 6] {
    std::array::from_fn(|_| SymBlock::default())
}

fn inter_mb(four: bool, mvd: [[i32; 2]; 4]) -> SymMb {
    // every other macroblock carries a (pointless, there are no coefficients) quantiser update: the +Q types
    // have MCBPC codes of their own and must reconstruct their vectors exactly like the plain types
    let q = (mvd[0][0] + mvd[0][1]).rem_euclid(2) == 1;
    let kind = match (four, q) {
        (true, true) => MbKind::Inter4VQ,
        (true, false) => MbKind::Inter4V,
        (false, true) => MbKind::InterQ,
        (false, false) => MbKind::Inter,
    };
    SymMb::Coded { kind, dquant: if mvd[0][0] % 4 == 0 { 1 } else { -1 }, mvd, blocks: empty_blocks() }
}

fn intra_mb(rng: &mut Rng) -> SymMb {
    let blocks: [SymBlock; 6] = std::array::from_fn(|_| SymBlock { intradc: Some(60 + rng.below(120) as u8 | 1), events: vec![] });
    SymMb::Coded { kind: MbKind::Intra, dquant: 1, mvd: [[0; 2]; 4], blocks }
}

/// Are the 64 displacements of one component (other fixed) pairwise distinguishable
/// for the 16x16 luma block at (bx,by) on this reference?
fn identifiable(refp: &Planes, bx: usize, by: usize, comp: usize, other: i32) -> bool {
    let mut seen: Vec<Vec<u8>> = Vec::with_capacity(64);
    for v in -32..=31 {
        let mv = if comp == 0 { [v, other] } else { [other, v] };
        let mut dst = vec![0u8; refp.w * refp.h];
        for blk in 0..4 {
            mc_block(&mut dst, &refp.y, refp.w, refp.h, bx + (blk % 2) * 8, by + (blk / 2) * 8, mv);
        }
        let mut block = Vec::with_capacity(256);
        for y in by..by + 16 {
            block.extend_from_slice(&dst[y * refp.w + bx..y * refp.w + bx + 16]);
        }
        if seen.contains(&block) {
            return false;
        }
        seen.push(block);
    }
    true
}

fn chroma_identifiable(refp: &Planes, bx: usize, by: usize, comp: usize, other: i32) -> bool {
    let (cw, ch) = (refp.cw(), refp.ch());
    let mut seen: Vec<Vec<u8>> = vec![];
    for v in -16..=16 {
        let mv = if comp == 0 { [v, other] } else { [other, v] };
        let mut dst = vec![0u8; cw * ch];
        mc_block(&mut dst, &refp.cb, cw, ch, bx, by, mv);
        let mut block = Vec::with_capacity(64);
        for y in by..by + 8 {
            block.extend_from_slice(&dst[y * cw + bx..y * cw + bx + 8]);
        }
        if seen.contains(&block) {
            return false;
        }
        seen.push(block);
    }
    true
}

struct Fixture {
    cfg: PicCfg,
    ref_bytes: Vec<u8>,
    refp: Planes,
}

/// A 48x48 reference on which the centre macroblock's displacement is identifiable.
fn fixture(rng: &mut Rng, flavour: Flavour, rep: &mut Report) -> Option<Fixture> {
    for _ in 0..8 {
        let mut cfg = gen_cfg(rng, flavour, 48, 48);
        cfg.stuffing_pct = 0;
        cfg.pei = 0;
        let (_, refp, ref_bytes) = match fresh_reference(rng, &cfg) {
            Ok(x) => x,
            Err(f) => {
                rep.count(&format!("skipped:{}", f.sig));
                return None;
            }
        };
        let ok = identifiable(&refp, 16, 16, 0, 0) && identifiable(&refp, 16, 16, 1, 0) && chroma_identifiable(&refp, 8, 8, 0, 0) && chroma_identifiable(&refp, 8, 8, 1, 0);
        rep.count("identifiability_checks");
        if ok {
            return Some(Fixture { cfg, ref_bytes, refp });
        }
        rep.count("reference_regenerated");
    }
    rep.inconclusive.push("could not build an identifiable reference in 8 attempts".into());
    None
}

fn run_picture(fx: &Fixture, pic: &SymPicture, rep: &mut Report, what: &str, coords: &dyn Fn() -> J) -> bool {
    let mut dec = Dec::new(fx.cfg.flavour.sorenson(), false);
    if dec.decode(&fx.ref_bytes) != Outcome::Ok {
        rep.inconclusive.push("reference failed to decode on replay".into());
        return false;
    }
    let bytes = pic.encode();
    match check_inter(&mut dec, &fx.refp, pic, &bytes) {
        Ok(_) => true,
        Err(f) => {
            if f.sig == "generator-invalid" {
                rep.inconclusive.push(f.detail);
            } else {
                rep.violation(format!("{}/{}", what.split(' ').next().unwrap_or(""), f.sig), format!("{}: {}", what, f.detail), coords());
            }
            false
        }
    }
}

/// Build a picture of `mbw x mbh` macroblocks whose macroblock `i` has the
/// requested vectors; returns the symbolic picture.
fn picture_with_vectors(fx: &Fixture, rng: &mut Rng, mbw: usize, mbh: usize, targets: &[Option<([[i32; 2]; 4], bool)>]) -> SymPicture {
    // targets[i]: Some((vectors, four)) inter, None => chosen elsewhere (not used here)
    let mut cfg = fx.cfg.clone();
    cfg.w = mbw * 16;
    cfg.h = mbh * 16;
    cfg.tr = cfg.tr.wrapping_add(1);
    let hdr = make_header(&cfg, 1, rng);
    let mut mvs: Vec<[[i32; 2]; 4]> = vec![];
    let mut mbs = vec![];
    for (i, t) in targets.iter().enumerate() {
        let (v, four) = t.unwrap();
        let v = if four { v } else { [v[0]; 4] };
        let d = diffs_for(&mvs, i, mbw, &v, four);
        mbs.push(inter_mb(four, d));
        mvs.push(v);
    }
    SymPicture { hdr, w: cfg.w, h: cfg.h, mbs, stuffing: vec![] }
}

/// A standard-mode picture whose PLUSPTYPE header switches unrestricted motion vectors on: an intra
/// picture (decodable on its own), or a predicted picture of not-coded macroblocks (decodable only
/// with a reference of that size) - optionally with a body that is rejected after the header.
pub fn umv_announcement(rng: &mut Rng, fmt_w: usize, fmt_h: usize, intra: bool, poisoned: bool) -> SymPicture {
    use crate::model::header::{PlusHeader, StdHeader};
    let accepted = intra;
    let mut hd = StdHeader::baseline(rng.byte(), 7, !accepted, 1 + rng.below(31) as u8);
    hd.plus = Some(PlusHeader {
        ufep: 1,
        src_fmt: 6,
        custom_pcf: false,
        umv: true,
        sac: false,
        ap: false,
        aic: false,
        df: false,
        ss: false,
        rps: false,
        isd: false,
        aiv: false,
        mq: false,
        ptype: if accepted { 0 } else { 1 },
        rpr: false,
        rru: false,
        rtype: rng.chance(1, 2),
        par: 2,
        pwi: (fmt_w / 4 - 1) as u16,
        phi: (fmt_h / 4) as u16,
        epar: (1, 1),
        cpcfc: 0,
        etr: 0,
        uui_unlimited: rng.chance(1, 2),
        sss: 0,
        elnum: 0,
        rlnum: 0,
        rpsmf: 4,
        trp: None,
    });
    let nmb = ((fmt_w + 15) / 16) * ((fmt_h + 15) / 16);
    let mut mbs: Vec<SymMb> = if accepted { (0..nmb).map(|_| intra_mb(rng)).collect() } else { (0..nmb).map(|_| SymMb::NotCoded).collect() };
    if poisoned {
        // an intra macroblock with the forbidden INTRADC code 0: the picture is rejected after its header was taken in
        mbs[0] = SymMb::Coded { kind: MbKind::Intra, dquant: 1, mvd: [[0; 2]; 4], blocks: std::array::from_fn(|_| SymBlock { intradc: Some(0), events: vec![] }) };
    }
    SymPicture { hdr: Hdr::Std(hd), w: fmt_w, h: fmt_h, mbs, stuffing: vec![] }
}

fn mode_history_case(ctx: &Ctx, k: usize, rng: &mut Rng, rep: &mut Report) {
    let (fmt_w, fmt_h) = if k % 2 == 0 { (128usize, 96usize) } else { (176, 144) };
    let coords = || J::obj().set("property", "C12").set("tier", ctx.tier_name()).set("seed", ctx.seed).set("stage", ctx.stage.clone()).set("kind", "modes").set("k", k);
    let mut dec = Dec::new(false, false);
    rep.evaluations += 1;
    let accepted = k % 4 < 2;
    let announce = umv_announcement(rng, fmt_w, fmt_h, accepted, false);
    match (dec.decode(&announce.encode()), accepted) {
        (Outcome::Ok, true) | (Outcome::Err(_), false) => {}
        (Outcome::Panic { msg, loc }, _) => {
            rep.violation(format!("panic@{}", loc), format!("announcing picture panicked: {}", msg), coords());
            return;
        }
        (o, _) => {
            rep.count(&format!("skipped:modes-announce:{}", o.short()));
            return;
        }
    }
    // baseline pictures from here on
    let mut cfg = crate::mon::ladder::cfg_for(rng, Flavour::StdFixed, fmt_w, fmt_h, 0);
    let refpic = gen_reference(rng, &cfg);
    if dec.decode(&refpic.encode()) != Outcome::Ok {
        rep.count("skipped:modes-reference");
        return;
    }
    let mut refp = dec.planes().unwrap();
    for _ in 0..2 {
        cfg.tr = cfg.tr.wrapping_add(1);
        let pic = crate::mon::ladder::dense_inter(rng, &cfg);
        let bytes = pic.encode();
        match check_inter(&mut dec, &refp, &pic, &bytes) {
            Ok((rec, got, _)) => {
                // how many vectors needed the wrap? recompute from the differentials
                let mbw = pic.mbw();
                let mut wraps = 0u64;
                for (i, m) in pic.mbs.iter().enumerate() {
                    if let SymMb::Coded { kind, mvd, .. } = m {
                        let mut cur = [[0i32; 2]; 4];
                        for blk in 0..if kind.four() { 4 } else { 1 } {
                            let p = crate::model::recon::predict_mv(&rec.mvs[..i], &cur, i, mbw, blk);
                            for c in 0..2 {
                                if p[c] + mvd[blk][c] != wrap_mv(p[c] + mvd[blk][c]) {
                                    wraps += 1;
                                }
                            }
                            cur[blk] = rec.mvs[i][blk];
                        }
                    }
                }
                rep.add("mode_history_wrapping_vectors", wraps);
                rep.count("mode_history_pictures_checked");
                rep.distinct.insert(fnv64(&bytes));
                refp = got;
            }
            Err(f) if f.sig == "generator-invalid" => {
                rep.inconclusive.push(f.detail);
                return;
            }
            Err(f) => {
                rep.violation(format!("modes/{}", f.sig), format!("baseline {}x{} picture after a PLUSPTYPE picture announcing unrestricted vectors ({}): {}", fmt_w, fmt_h, if accepted { "accepted" } else { "rejected" }, f.detail), coords());
                return;
            }
        }
    }
    rep.count(if accepted { "mode_history:announced-by-accepted-picture" } else { "mode_history:announced-by-rejected-picture" });
}

pub fn run(ctx: &Ctx) -> (Report, String) {
    // part (a): 2 components x 64 x 64 pairs, split over shards by predictor value
    // part (b): sums; part (c): neighbour configurations
    let flavours = [Flavour::Sor(0), Flavour::StdPlus];
    let a_shards = 64usize; // predictor index
    let reps = par_shards(a_shards * 2 + 16 + 32, ctx.threads, |s| {
        let mut rep = Report::new();
        crate::mon::guarded(&mut rep, || J::obj().set("property", "C12").set("shard", s), |rep| shard(ctx, s, &flavours, rep));
        rep
    });
    let mut rep = Report::merge_all(reps);
    // part (d): candidate selection at large macroblock addresses / in very wide pictures
    if !ctx.miri() {
        let sizes = [(2064usize, 16usize), (2064, 48), (1024, 272), (1280, 720), (4112, 32), (65535, 16), (65535, 33), (2048, 48), (640, 480), (16, 4112)];
        let lr = par_shards(sizes.len() * 2, ctx.threads, |k| {
            let mut r = Report::new();
            let (w, h) = sizes[k / 2];
            let flavour = if k % 2 == 1 && w <= 2048 && h <= 1152 && w % 4 == 0 && h % 4 == 0 { Flavour::StdPlus } else { Flavour::Sor((k % 2) as u8) };
            let mut rng = Rng::new(ctx.seed ^ 0xC12D, k as u64);
            crate::mon::guarded(&mut r, || J::obj().set("property", "C12").set("kind", "wide").set("k", k), |r| {
                let mut cfg = crate::mon::ladder::cfg_for(&mut rng, flavour, w, h, 0);
                let refpic = crate::mon::ladder::large_intra(&mut rng, &cfg);
                let mut dec = Dec::new(flavour.sorenson(), false);
                r.evaluations += 1;
                if dec.decode(&refpic.encode()) != Outcome::Ok {
                    r.count("skipped:wide-reference");
                    return;
                }
                let refp = dec.planes().unwrap();
                cfg.tr = cfg.tr.wrapping_add(1);
                let pic = crate::mon::ladder::dense_inter(&mut rng, &cfg);
                let bytes = pic.encode();
                match check_inter(&mut dec, &refp, &pic, &bytes) {
                    Ok(_) => {
                        r.count("wide_pictures_checked");
                        r.add("wide_macroblocks_checked", pic.mbs.len() as u64);
                        r.distinct.insert(fnv64(&bytes));
                    }
                    Err(f) if f.sig == "generator-invalid" => r.inconclusive.push(f.detail),
                    Err(f) => r.violation(format!("wide/{}", f.sig), format!("{} {}x{} with a vector in every macroblock: {}", flavour.name(), w, h, f.detail), J::obj().set("property", "C12").set("tier", ctx.tier_name()).set("seed", ctx.seed).set("stage", ctx.stage.clone()).set("kind", "wide").set("k", k)),
                }
            });
            r
        });
        rep.merge(Report::merge_all(lr));
        if ctx.is_main() && ctx.scale_pct == 100 {
            rep.require("wide_pictures_checked", 18);
        }
    }
    // part (e): the wrap into [-16, 15.5] of a baseline picture's vectors does not depend on what
    // earlier pictures announced: a PLUSPTYPE picture with unrestricted motion vectors switched on
    // (accepted, or rejected for lack of a reference) precedes baseline pictures with large differentials
    {
        let n = ctx.n(64, 2000) as usize;
        let lr = par_shards(n, ctx.threads, |k| {
            let mut r = Report::new();
            let mut rng = Rng::new(ctx.seed ^ 0xC12E, k as u64);
            crate::mon::guarded(&mut r, || J::obj().set("property", "C12").set("kind", "modes").set("k", k), |r| mode_history_case(ctx, k, &mut rng, r));
            r
        });
        rep.merge(Report::merge_all(lr));
        if ctx.is_main() && ctx.scale_pct == 100 {
            rep.require("mode_history:announced-by-accepted-picture", 10);
            rep.require("mode_history:announced-by-rejected-picture", 10);
            rep.require("mode_history_wrapping_vectors", 500);
        }
    }
    if ctx.is_main() && ctx.scale_pct == 100 {
        rep.require("pairs_checked", 2 * 64 * 64 * 2);
        rep.require("sums_checked", 1000);
        rep.require("neighbour_configs_checked", 50_000);
        rep.require("neighbour_configs_with_stuffing", 2_000);
        rep.require("four_vector_mbs_with_three_zero_differentials_and_distinct_vectors", 1_000);
        rep.exhaustive = Some(rep.get("pairs_checked") >= 2 * 64 * 64 * 2 && rep.violations.is_empty());
    }
    (rep, rule())
}

fn shard(ctx: &Ctx, s: usize, flavours: &[Flavour], rep: &mut Report) {
    let mut rng = Rng::new(ctx.seed ^ 0xC12, s as u64);
    if s < 128 {
        // part (a): predictor p = (s % 64) - 32, flavour s / 64
        let flavour = flavours[s / 64];
        let p = (s % 64) as i32 - 32;
        let Some(fx) = fixture(&mut rng, flavour, rep) else { return };
        for comp in 0..2usize {
            for d in -32..=31i32 {
                // every macroblock has vector P, the centre one wrap(P + d)
                let other_p = 0;
                let pv = if comp == 0 { [p, other_p] } else { [other_p, p] };
                let mut cv = pv;
                cv[comp] = wrap_mv(p + d);
                let targets: Vec<Option<([[i32; 2]; 4], bool)>> = (0..9).map(|i| Some(([if i == 4 { cv } else { pv }; 4], false))).collect();
                let pic = picture_with_vectors(&fx, &mut rng, 3, 3, &targets);
                // the generator must have produced exactly differential d at the centre
                if let SymMb::Coded { mvd, .. } = &pic.mbs[4] {
                    if mvd[0][comp] != d {
                        rep.inconclusive.push(format!("directed generator produced differential {} instead of {}", mvd[0][comp], d));
                    }
                }
                rep.evaluations += 1;
                let what = format!("pair comp={} predictor={} differential={} flavour={}", comp, p, d, flavour.name());
                let coords = || J::obj().set("property", "C12").set("tier", ctx.tier_name()).set("seed", ctx.seed).set("stage", ctx.stage.clone()).set("shard", s).set("index", 0).set("what", what.clone());
                if run_picture(&fx, &pic, rep, &what, &coords) {
                    rep.count("pairs_checked");
                    if p + d != wrap_mv(p + d) {
                        rep.count("pairs_with_wrap");
                    }
                    rep.distinct_enumerated += 1;
                }
            }
        }
        // joint x/y sweep, random pairs
        let n = ctx.n(40, 8000);
        for _ in 0..n {
            let pv = [rng.range(-32, 31) as i32, rng.range(-32, 31) as i32];
            let cv = [rng.range(-32, 31) as i32, rng.range(-32, 31) as i32];
            let targets: Vec<Option<([[i32; 2]; 4], bool)>> = (0..9).map(|i| Some(([if i == 4 { cv } else { pv }; 4], false))).collect();
            let pic = picture_with_vectors(&fx, &mut rng, 3, 3, &targets);
            rep.evaluations += 1;
            let what = format!("joint predictor={:?} vector={:?}", pv, cv);
            let coords = || J::obj().set("property", "C12").set("tier", ctx.tier_name()).set("seed", ctx.seed).set("stage", ctx.stage.clone()).set("shard", s).set("what", what.clone());
            if run_picture(&fx, &pic, rep, &what, &coords) {
                rep.count("joint_pairs_checked");
                rep.distinct.insert(fnv64(what.as_bytes()));
            }
        }
        if s % 64 == 0 {
            rep.sample(4, || J::obj().set("part", "a").set("flavour", flavour.name()).set("predictor", p).set("differentials", "-32..=31 on each component").set("picture", "48x48, 9 INTER macroblocks, centre carries wrap(p+d)"));
        }
    } else if s < 128 + 16 {
        // part (b): four-vector sums. Shard k handles sums s = -128 + 16k .. +15 (both components)
        let k = s - 128;
        let flavour = flavours[k % 2];
        let Some(fx) = fixture(&mut rng, flavour, rep) else { return };
        let decomps = ctx.n(3, 150);
        for sum in (-128 + 16 * (k as i32 / 2) * 2)..(-128 + 16 * (k as i32 / 2) * 2 + 32) {
            if sum > 124 {
                continue;
            }
            for comp in 0..2usize {
                for _ in 0..decomps {
                    // random decomposition sum = a+b+c+d with each in -32..=31
                    let mut v = [0i32; 4];
                    let mut ok = false;
                    for _ in 0..200 {
                        for x in v.iter_mut().take(3) {
                            *x = rng.range(-32, 31) as i32;
                        }
                        v[3] = sum - v[0] - v[1] - v[2];
                        if (-32..=31).contains(&v[3]) {
                            ok = true;
                            break;
                        }
                    }
                    if !ok {
                        let q = sum.div_euclid(4);
                        let r = sum.rem_euclid(4) as usize;
                        v = std::array::from_fn(|i| if i < r { q + 1 } else { q });
                    }
                    let mut four = [[0i32; 2]; 4];
                    let osum: i32 = rng.range(-6, 6) as i32 * 4;
                    for b in 0..4 {
                        four[b][comp] = v[b];
                        four[b][1 - comp] = osum / 4;
                    }
                    let targets: Vec<Option<([[i32; 2]; 4], bool)>> = (0..9).map(|i| Some(if i == 4 { (four, true) } else { ([[0, 0]; 4], false) })).collect();
                    let pic = picture_with_vectors(&fx, &mut rng, 3, 3, &targets);
                    rep.evaluations += 1;
                    let what = format!("sum comp={} sum={} vectors={:?} chroma={} flavour={}", comp, sum, v, chroma_mv(sum), flavour.name());
                    let coords = || J::obj().set("property", "C12").set("tier", ctx.tier_name()).set("seed", ctx.seed).set("stage", ctx.stage.clone()).set("shard", s).set("what", what.clone());
                    if run_picture(&fx, &pic, rep, &what, &coords) {
                        rep.count("sum_decompositions_checked");
                        rep.count(&format!("sum_mod16={}", sum.rem_euclid(16)));
                        rep.distinct.insert(fnv64(what.as_bytes()));
                    }
                }
                rep.count("sums_checked");
            }
        }
        if k == 0 {
            rep.sample(6, || J::obj().set("part", "b").set("picture", "48x48, centre macroblock INTER4V with the four vectors summing to s, other macroblocks zero vector").set("sums", "-128..=124 per component"));
        }
    } else {
        // part (c): neighbour configurations
        let k = s - 144;
        let flavour = flavours[k % 2];
        let n = ctx.n(600, 60000);
        for it in 0..n {
            let mbw = 1 + rng.below(4) as usize;
            let mbh = 1 + rng.below(3) as usize;
            let mut cfg = gen_cfg(&mut rng, flavour, mbw * 16, mbh * 16);
            cfg.stuffing_pct = 0;
            let (mut dec, refp, _rb) = match fresh_reference(&mut rng, &cfg) {
                Ok(x) => x,
                Err(f) => {
                    rep.count(&format!("skipped:{}", f.sig));
                    continue;
                }
            };
            cfg.tr = cfg.tr.wrapping_add(1);
            let hdr = make_header(&cfg, 1, &mut rng);
            // each macroblock: kind in {1V, 4V, intra, not-coded}; vectors pairwise distinct multiples
            let mut mvs: Vec<[[i32; 2]; 4]> = vec![];
            let mut mbs = vec![];
            let mut kinds: Vec<u8> = vec![];
            for i in 0..mbw * mbh {
                let kind = rng.below(8);
                match kind {
                    0 => {
                        mbs.push(SymMb::NotCoded);
                        mvs.push([[0, 0]; 4]);
                        kinds.push(3);
                    }
                    1 => {
                        mbs.push(intra_mb(&mut rng));
                        mvs.push([[0, 0]; 4]);
                        kinds.push(2);
                    }
                    2..=4 => {
                        let mut v: [[i32; 2]; 4] = std::array::from_fn(|_| [rng.range(-32, 31) as i32, rng.range(-32, 31) as i32]);
                        // a third of the four-vector macroblocks code zero differentials for some or all of
                        // vectors 2..4: each of those vectors then *is* its own median predictor
                        if rng.chance(1, 3) {
                            let all = rng.chance(1, 2);
                            for b in 1..4 {
                                if all || rng.chance(1, 2) {
                                    let d = diffs_for(&mvs, i, mbw, &v, true);
                                    for c in 0..2 {
                                        let mut x = v[b][c] - d[b][c];
                                        while x > 31 {
                                            x -= 64;
                                        }
                                        while x < -32 {
                                            x += 64;
                                        }
                                        v[b][c] = x;
                                    }
                                }
                            }
                        }
                        let d = diffs_for(&mvs, i, mbw, &v, true);
                        if d[1..].iter().all(|x| *x == [0, 0]) {
                            rep.count("four_vector_mbs_with_three_zero_differentials");
                            if (1..4).any(|b| v[b] != v[0]) {
                                rep.count("four_vector_mbs_with_three_zero_differentials_and_distinct_vectors");
                            }
                        }
                        mbs.push(inter_mb(true, d));
                        mvs.push(v);
                        kinds.push(1);
                    }
                    _ => {
                        let v0 = [rng.range(-32, 31) as i32, rng.range(-32, 31) as i32];
                        let v = [v0; 4];
                        let d = diffs_for(&mvs, i, mbw, &v, false);
                        mbs.push(inter_mb(false, d));
                        mvs.push(v);
                        kinds.push(0);
                    }
                }
            }
            // a third of the pictures have MCBPC stuffing in front of some macroblocks (not a macroblock: candidate
            // selection counts macroblocks, not code words)
            let stuffing: Vec<u8> = if it % 3 == 1 { (0..mbs.len()).map(|_| if rng.chance(1, 3) { 1 + rng.below(2) as u8 } else { 0 }).collect() } else { vec![] };
            if stuffing.iter().any(|s| *s > 0) {
                rep.count("neighbour_configs_with_stuffing");
            }
            let pic = SymPicture { hdr, w: cfg.w, h: cfg.h, mbs, stuffing };
            let bytes = pic.encode();
            rep.evaluations += 1;
            let what = format!("neighbours {}x{} kinds={:?}", mbw, mbh, kinds);
            match check_inter(&mut dec, &refp, &pic, &bytes) {
                Ok(_) => {
                    let kn = ["1v", "4v", "intra", "notcoded", "outside"];
                    for i in 0..mbw * mbh {
                        if kinds[i] > 1 {
                            continue;
                        }
                        let (col, row) = (i % mbw, i / mbw);
                        let left = if col == 0 { 4 } else { kinds[i - 1] };
                        let above = if row == 0 { 4 } else { kinds[i - mbw] };
                        let ar = if row == 0 || col + 1 == mbw { 4 } else { kinds[i - mbw + 1] };
                        let colc = if mbw == 1 { "single" } else if col == 0 { "first" } else if col + 1 == mbw { "last" } else { "middle" };
                        let rowc = if row == 0 { "toprow" } else { "interior" };
                        rep.count(&format!("cfg:{}:{}:{}:L={}:A={}:AR={}", rowc, colc, kn[kinds[i] as usize], kn[left as usize], kn[above as usize], kn[ar as usize]));
                        rep.count("neighbour_configs_checked");
                    }
                    rep.distinct.insert(fnv64(&bytes));
                }
                Err(f) => {
                    if f.sig == "generator-invalid" {
                        rep.inconclusive.push(f.detail);
                    } else {
                        rep.violation(format!("neighbours/{}", f.sig), format!("{}: {} bytes={}", what, f.detail, crate::util::hex(&bytes)), J::obj().set("property", "C12").set("tier", ctx.tier_name()).set("seed", ctx.seed).set("stage", ctx.stage.clone()).set("shard", s).set("what", what.clone()));
                    }
                }
            }
            if k == 0 && it < 2 {
                rep.sample(8, || J::obj().set("part", "c").set("mbw", mbw).set("mbh", mbh).set("kinds(0=1V,1=4V,2=intra,3=not-coded)", J::Arr(kinds.iter().map(|k| J::Int(*k as i64)).collect())).set("vectors", format!("{:?}", mvs)));
            }
        }
    }
    let _ = Tier::Quick;
}

/// Replay re-runs the whole shard that produced the witness (shards are small).
pub fn replay_modes(ctx: &Ctx, k: usize, rep: &mut Report) {
    let mut rng = Rng::new(ctx.seed ^ 0xC12E, k as u64);
    mode_history_case(ctx, k, &mut rng, rep);
}

pub fn replay_shard(ctx: &Ctx, s: usize, rep: &mut Report) {
    shard(ctx, s, &[Flavour::Sor(0), Flavour::StdPlus], rep);
}
