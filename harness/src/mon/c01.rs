//! C01 - decoding never crashes or hangs, whatever bytes and history it is given.
//!
//! Crash/UB oracle under hostile input. Panics are caught in-process at the API
//! call; aborts, signals, sanitizer reports and stalls are caught at the worker
//! process boundary by the driver (each worker announces a case before running it).
//! The macroblock-loop hook gives a logical-step progress check (every
//! iteration must consume at least one bit).

use crate::gen::*;
use crate::json::J;
use crate::model::bits::BitWriter;
use crate::model::header::*;
use crate::model::syntax::*;
use crate::model::tables::*;
use crate::report::Report;
use crate::sut::{outcome_of, Dec, Outcome};
use crate::util::{catch, fnv64, fnv64_more, hex, Rng};
use crate::{Ctx, Tier};
use h263_rs::parser::H263Reader;
use std::io::{BufRead, BufReader, Write};
use std::process::{Command, Stdio};
use std::sync::mpsc;
use std::time::Duration;

pub fn rule() -> String {
    "cases = (decoder option combination, history of 1-6 decode calls on one decoder); inputs are valid pictures, mutated valid pictures (bit flips, truncation, splices, duplication), semantically extreme but well-formed pictures (extra macroblocks, runs past 63, extreme levels, invalid INTRADC, size changes, zero sizes, reserved codes, PLUSPTYPE mode bits, UMV escape chains, embedded start codes) and random bytes; a case is non-trivial if at least one call got past the picture header (macroblock loop entered), distinct by hash of (options, all call bytes), counted per worker process and summed (workers run disjoint case coordinates)".into()
}

/// Luma-sample limit of the "fits in memory" exclusion.
fn luma_limit(ctx: &Ctx) -> u64 {
    if ctx.tier == Tier::Thorough {
        1 << 24
    } else {
        1 << 22
    }
}

// ------------------------------------------------------------------------------------------
// hostile generators
// ------------------------------------------------------------------------------------------

fn mutate(rng: &mut Rng, mut b: Vec<u8>, other: &[u8]) -> (Vec<u8>, &'static str) {
    if b.is_empty() {
        return (b, "none");
    }
    let n = b.len();
    match rng.below(9) {
        0 | 1 => {
            let k = 1 + rng.below(4);
            for _ in 0..k {
                let i = rng.below(n as u64 * 8) as usize;
                b[i / 8] ^= 0x80 >> (i % 8);
            }
            (b, "bitflip")
        }
        2 => {
            // flips restricted to the first 12 bytes: the header
            let i = rng.below((n.min(12) * 8) as u64) as usize;
            b[i / 8] ^= 0x80 >> (i % 8);
            (b, "header-bitflip")
        }
        3 => {
            b.truncate(rng.below(n as u64) as usize);
            (b, "truncate")
        }
        4 => {
            if !other.is_empty() {
                let at = rng.below(n as u64) as usize;
                let from = rng.below(other.len() as u64) as usize;
                b.truncate(at);
                b.extend_from_slice(&other[from..]);
            }
            (b, "splice")
        }
        5 => {
            let a = rng.below(n as u64) as usize;
            let l = 1 + rng.below((n - a) as u64) as usize;
            let chunk = b[a..a + l].to_vec();
            let at = rng.below(n as u64) as usize;
            for (k, c) in chunk.into_iter().enumerate() {
                b.insert(at + k, c);
            }
            (b, "duplicate")
        }
        6 => {
            let at = rng.below(n as u64) as usize;
            let l = 1 + rng.below(8) as usize;
            for _ in 0..l {
                b.insert(at, rng.byte());
            }
            (b, "insert-random")
        }
        7 => {
            let at = rng.below(n as u64) as usize;
            b[at] = *rng.pick(&[0u8, 0xff, 0x80, 0x01]);
            (b, "set-byte")
        }
        _ => {
            let at = rng.below(n as u64) as usize;
            for x in b[at..].iter_mut() {
                *x = rng.byte();
            }
            (b, "random-tail")
        }
    }
}

fn small_cfg(rng: &mut Rng, sorenson: bool, max: usize) -> PicCfg {
    let (flavour, w, h) = if sorenson {
        let (w, h) = gen_size(rng, max);
        (Flavour::Sor(rng.below(2) as u8), w, h)
    } else if rng.chance(1, 8) {
        let f = STD_FIXED[rng.below(2) as usize];
        (Flavour::StdFixed, f.1, f.2)
    } else {
        let (w, h) = gen_size(rng, max);
        (Flavour::StdPlus, ((w + 3) / 4 * 4).clamp(4, 2048), ((h + 3) / 4 * 4).clamp(4, 1152))
    };
    gen_cfg(rng, flavour, w, h)
}

/// Emit a UMV (Table D.3) codeword for a non-zero magnitude with `nbits` mantissa bits.
fn put_umv(w: &mut BitWriter, mantissa_bits: u32, neg: bool, rng: &mut Rng) {
    w.put(0, 1);
    for _ in 0..mantissa_bits {
        w.put(if rng.chance(1, 2) { 0b01 } else { 0b11 }, 2);
    }
    w.put(if neg { 0b10 } else { 0b00 }, 2);
}

/// PLUSPTYPE picture with UMV on and a chain of inter macroblocks carrying large escape vectors.
fn umv_chain(rng: &mut Rng) -> Vec<u8> {
    let wmb = 1 + rng.below(6) as usize;
    let hmb = 1 + rng.below(6) as usize;
    let cfg = PicCfg { flavour: Flavour::StdPlus, w: wmb * 16, h: hmb * 16, quant: 5, tr: rng.byte(), wide_levels: false, stuffing_pct: 0, pei: 0, deblock_flag: false, prefer_fixed_size_code: false, force16: false };
    let mut hdr = match make_header(&cfg, 1, rng) {
        Hdr::Std(h) => h,
        _ => unreachable!(),
    };
    if let Some(p) = hdr.plus.as_mut() {
        p.umv = true;
        p.uui_unlimited = rng.chance(1, 2);
    }
    let mut w = BitWriter::new();
    hdr.encode(&mut w, false, &Inherited::default());
    let neg = rng.chance(1, 2);
    let n = wmb * hmb + rng.below(3) as usize;
    for _ in 0..n {
        w.put(0, 1); // COD
        let four = rng.chance(1, 3);
        w.code(MCBPC_P[if four { 2 } else { 0 }][0]);
        w.code(CBPY[15]); // inter: no luma blocks coded
        for _ in 0..if four { 4 } else { 1 } {
            let bits = if rng.chance(3, 4) { 11 } else { rng.below(12) as u32 };
            put_umv(&mut w, bits, neg, rng);
            put_umv(&mut w, bits, if rng.chance(1, 8) { !neg } else { neg }, rng);
        }
    }
    w.align();
    w.bytes
}

/// A standard header with random PLUSPTYPE mode bits followed by random bits.
fn random_plus_header(rng: &mut Rng, scal: bool) -> Vec<u8> {
    let tr = rng.byte();
    let inter = rng.chance(1, 2);
    let q = 1 + rng.below(31) as u8;
    let mut h = StdHeader::baseline(tr, 7, inter, q);
    let bits: Vec<bool> = (0..14).map(|_| rng.chance(1, 4)).collect();
    let ufep = if rng.chance(1, 8) { rng.below(8) as u8 } else { 1 };
    let src_fmt = if rng.chance(1, 2) { 6 } else { rng.below(8) as u8 };
    let ptype = if rng.chance(1, 2) { rng.below(2) as u8 } else { rng.below(8) as u8 };
    let wmax = if rng.chance(1, 4) { 512 } else { 12 };
    let hmax = if rng.chance(1, 4) { 512 } else { 12 };
    h.plus = Some(PlusHeader {
        ufep,
        src_fmt,
        custom_pcf: bits[0],
        umv: bits[1],
        sac: bits[2],
        ap: bits[3],
        aic: bits[4],
        df: bits[5],
        ss: bits[6],
        rps: bits[7],
        isd: bits[8],
        aiv: bits[9],
        mq: bits[10],
        ptype,
        rpr: rng.chance(1, 10),
        rru: bits[11],
        rtype: bits[12],
        par: rng.below(16) as u8,
        pwi: rng.below(wmax) as u16,
        phi: rng.below(hmax) as u16,
        epar: (rng.byte(), rng.byte()),
        cpcfc: rng.byte(),
        etr: rng.below(4) as u8,
        uui_unlimited: rng.chance(1, 2),
        sss: rng.below(4) as u8,
        elnum: rng.below(16) as u8,
        rlnum: rng.below(16) as u8,
        rpsmf: rng.below(8) as u8,
        trp: if bits[13] { Some(rng.below(1024) as u16) } else { None },
    });
    let mut w = BitWriter::new();
    h.encode(&mut w, scal, &Inherited::default());
    let n = rng.below(200) as usize;
    for _ in 0..n {
        w.put(rng.byte() as u32, 8);
    }
    w.bytes
}

#[derive(Clone)]
struct Call {
    bytes: Vec<u8>,
    class: &'static str,
}

struct Case {
    sorenson: bool,
    scal: bool,
    one_reader: bool,
    calls: Vec<Call>,
}

fn gen_case(rng: &mut Rng) -> Case {
    let sorenson = rng.chance(3, 5);
    let scal = rng.chance(1, 6);
    let one_reader = rng.chance(1, 6);
    let maxcalls = if rng.chance(1, 3) { 6 } else { 3 };
    let ncalls = 1 + rng.below(maxcalls) as usize;
    let mut calls: Vec<Call> = vec![];
    // base configuration shared by the history so that P pictures can follow I pictures
    let maxdim = if rng.chance(1, 10) { 160 } else { 48 };
    let base = small_cfg(rng, sorenson, maxdim);
    let mut have_ref = false;
    for _ in 0..ncalls {
        let mut cfg = base.clone();
        cfg.tr = rng.byte();
        cfg.quant = 1 + rng.below(31) as u8;
        let mut kind = rng.below(100);
        // rare, expensive classes first (boundary-value ladder, see mon/ladder.rs)
        let rare = rng.below(300);
        if rare < 4 {
            kind = 200 + rare;
        }
        let (bytes, class): (Vec<u8>, &'static str) = match kind {
            200 | 201 if sorenson => {
                // extreme picture dimensions / macroblock counts (within the memory exclusion), valid or mutated
                let mut lr = Rng::new(rng.next(), 7);
                let dims = crate::mon::ladder::boundary_dims(&mut lr, false);
                let (w, h) = *rng.pick(&dims);
                let v = rng.below(2) as u8;
                let pei = if rng.chance(1, 6) { *rng.pick(&[255usize, 256, 257, 1000]) } else { 0 };
                let c2 = crate::mon::ladder::cfg_for(rng, Flavour::Sor(v), w, h, pei);
                let disp = rng.chance(1, 3);
                let cut = if rng.chance(1, 2) { Some(rng.below(5000) as usize) } else { None };
                // half of the time the large picture is a predicted one on top of an intra picture of the same size
                // (pushed as a call of its own), sometimes with a vector in every macroblock
                let p = if rng.chance(1, 2) {
                    calls.push(Call { bytes: crate::mon::ladder::large_intra(rng, &c2).encode(), class: "ladder-size" });
                    let mut c3 = c2.clone();
                    c3.tr = c2.tr.wrapping_add(1);
                    if rng.chance(1, 2) {
                        crate::mon::ladder::dense_inter(rng, &c3)
                    } else {
                        crate::mon::ladder::large_inter(rng, &c3, disp, cut)
                    }
                } else if have_ref && rng.chance(1, 3) {
                    crate::mon::ladder::large_inter(rng, &c2, disp, cut)
                } else {
                    crate::mon::ladder::large_intra(rng, &c2)
                };
                let b = p.encode();
                if kind == 201 {
                    let (b2, _) = mutate(rng, b, &[]);
                    (b2, "ladder-size-mutated")
                } else {
                    (b, "ladder-size")
                }
            }
            203 => {
                // a long run of MCBPC stuffing codes (2^10 .. 2^17 of them) in front of an ordinary picture
                let fl = if sorenson { Flavour::Sor(rng.below(2) as u8) } else { Flavour::StdPlus };
                let interpreted = crate::util::INTERPRETED.load(std::sync::atomic::Ordering::Relaxed);
                let n = (1usize << (if interpreted { 6 } else { 10 } + rng.below(if interpreted { 3 } else { 8 }))) + rng.below(9) as usize;
                let inter = have_ref && rng.chance(1, 2);
                let p = crate::mon::ladder::stuffed_picture(rng, fl, n * 9 / 8, inter);
                have_ref = true;
                (p.encode(), "stuffing-run")
            }
            200..=202 => {
                // long DQUANT runs towards a clamp
                let fl = if sorenson { Flavour::Sor(rng.below(2) as u8) } else { Flavour::StdPlus };
                let up = rng.chance(1, 2);
                let side = 8 + rng.below(5) as usize;
                let p = crate::mon::ladder::dquant_run(rng, fl, up, side);
                (p.encode(), "dquant-run")
            }
            0..=9 => {
                let p = gen_intra(rng, &cfg);
                have_ref = true;
                (p.encode(), "valid-I")
            }
            10..=24 if have_ref => {
                let ic = InterCfg { ptype: if sorenson && rng.chance(1, 4) { 2 } else { 0 }, big_vectors_pct: 50, residual_pct: 30, truncate: if rng.chance(1, 4) { Some(rng.below(8) as usize) } else { None }, allow_q: true };
                (gen_inter(rng, &cfg, &ic).encode(), "valid-P")
            }
            10..=44 => {
                // mutated valid picture
                let p = if have_ref && rng.chance(1, 2) {
                    let ic = InterCfg { ptype: 0, big_vectors_pct: 50, residual_pct: 50, truncate: None, allow_q: true };
                    gen_inter(rng, &cfg, &ic)
                } else {
                    gen_intra(rng, &cfg)
                };
                let other = gen_intra(rng, &cfg).encode();
                let (b, m) = mutate(rng, p.encode(), &other);
                let _ = m;
                (b, "mutated")
            }
            45..=49 => {
                // more macroblocks than the picture holds
                let mut p = if have_ref && rng.chance(1, 2) { gen_inter(rng, &cfg, &InterCfg { ptype: 0, big_vectors_pct: 20, residual_pct: 20, truncate: None, allow_q: true }) } else { gen_intra(rng, &cfg) };
                let extra = 1 + rng.below(4) as usize;
                for _ in 0..extra {
                    if let Some(m) = p.mbs.last().cloned() {
                        p.mbs.push(m);
                    }
                }
                (p.encode(), "extra-macroblocks")
            }
            50..=54 => {
                // runs that walk past coefficient 63 / extreme levels
                let mut p = gen_intra(rng, &cfg);
                let v1 = cfg.flavour == Flavour::Sor(1);
                for mb in p.mbs.iter_mut() {
                    if let SymMb::Coded { blocks, .. } = mb {
                        for b in blocks.iter_mut() {
                            if rng.chance(1, 3) {
                                b.events = (0..1 + rng.below(5)).map(|_| Ev { run: rng.below(64) as u8, level: if v1 { *rng.pick(&[1023, -1023, -1024, 529, -529]) } else { *rng.pick(&[127, -127, -128, 64]) }, esc: if v1 { Esc::Esc11 } else { Esc::Esc8 } }).collect();
                            }
                        }
                    }
                }
                if let Hdr::Sor(h) = &mut p.hdr {
                    if rng.chance(1, 2) {
                        h.quant = 31;
                    }
                }
                (p.encode(), "extreme-coefficients")
            }
            55..=57 => {
                let mut p = gen_intra(rng, &cfg);
                if let Some(SymMb::Coded { blocks, .. }) = p.mbs.first_mut() {
                    blocks[rng.below(6) as usize].intradc = Some(*rng.pick(&[0u8, 128]));
                }
                (p.encode(), "invalid-intradc")
            }
            58..=64 => {
                // size change relative to the history (reference of another size)
                let mut c2 = small_cfg(rng, sorenson, 64);
                c2.flavour = if sorenson { cfg.flavour } else { c2.flavour };
                let ic = InterCfg { ptype: 0, big_vectors_pct: 60, residual_pct: 30, truncate: None, allow_q: false };
                let p = if rng.chance(3, 4) { gen_inter(rng, &c2, &ic) } else { gen_intra(rng, &c2) };
                (p.encode(), "size-change")
            }
            65..=69 if sorenson => {
                // zero / degenerate sizes, reserved size code and picture type
                let mut p = if have_ref && rng.chance(1, 2) { gen_inter(rng, &cfg, &InterCfg { ptype: 0, big_vectors_pct: 20, residual_pct: 20, truncate: None, allow_q: true }) } else { gen_intra(rng, &cfg) };
                if let Hdr::Sor(h) = &mut p.hdr {
                    match rng.below(6) {
                        0 => h.size = SorSize::Custom8(0, rng.below(40) as u16),
                        1 => h.size = SorSize::Custom8(rng.below(40) as u16, 0),
                        2 => h.size = SorSize::Custom16(0, 0),
                        3 => h.size = SorSize::Reserved7,
                        4 => h.ptype = 3,
                        _ => h.size = SorSize::Custom16(rng.below(3) as u16, 1 + rng.below(65535) as u16),
                    }
                }
                (p.encode(), "degenerate-header")
            }
            65..=72 => (random_plus_header(rng, scal), "plus-header+random"),
            73..=77 if !sorenson => (umv_chain(rng), "umv-chain"),
            73..=82 => {
                // valid header, random macroblock data
                let p = gen_intra(rng, &cfg);
                let (w, offs) = p.encode_bits();
                let hdr_bytes = offs[0] / 8;
                let mut b = w.bytes[..hdr_bytes.min(w.bytes.len())].to_vec();
                for _ in 0..rng.below(300) {
                    b.push(rng.byte());
                }
                (b, "header+random")
            }
            83..=87 => {
                // embedded start codes (GOB headers, picture start, EOS) inside macroblock data
                let p = gen_intra(rng, &cfg);
                let mut b = p.encode();
                if b.len() > 8 {
                    let at = 6 + rng.below((b.len() - 6) as u64) as usize;
                    let gn = *rng.pick(&[0u8, 1, 2, 15, 31, 17]);
                    let ins = [0u8, 0u8, 0x80 | (gn << 2), rng.byte()];
                    for (k, c) in ins.iter().enumerate() {
                        b.insert(at + k, *c);
                    }
                }
                (b, "embedded-start-code")
            }
            88..=93 => {
                let mut b = vec![0u8, 0u8, 0x80 | (rng.byte() & 0x7f)];
                for _ in 0..rng.below(120) {
                    b.push(rng.byte());
                }
                (b, "startcode+random")
            }
            94..=96 => {
                let n = rng.below(64) as usize;
                ((0..n).map(|_| rng.byte()).collect(), "random")
            }
            _ => {
                let n = rng.below(40) as usize;
                (vec![0u8; n], "zeros")
            }
        };
        calls.push(Call { bytes, class });
    }
    Case { sorenson, scal, one_reader, calls }
}

// ------------------------------------------------------------------------------------------
// executing one case
// ------------------------------------------------------------------------------------------

fn check_progress(log: &[(usize, usize)]) -> Option<String> {
    for w in log.windows(2) {
        if w[1].0 <= w[0].0 {
            return Some(format!("macroblock loop iteration at bit {} followed by one at bit {} (no input consumed), macroblocks so far {}", w[0].0, w[1].0, w[1].1));
        }
    }
    None
}

fn run_case(ctx: &Ctx, case: &Case, coords: &dyn Fn() -> J, rep: &mut Report) {
    let limit = luma_limit(ctx);
    let mut dec = Dec::new(case.sorenson, case.scal);
    let mut entered_loop = false;
    let mut fp = fnv64(&[case.sorenson as u8, case.scal as u8, case.one_reader as u8]);
    let opt = format!("options=sorenson:{}/scal:{}", case.sorenson, case.scal);
    rep.count(&opt);
    rep.count(&format!("history_len={}", case.calls.len()));
    let detail_hist = || case.calls.iter().map(|c| format!("{}:{}", c.class, hex(&c.bytes))).collect::<Vec<_>>().join(" | ");
    if case.one_reader {
        rep.count("history_mode=one-reader");
        // all calls' bytes concatenated in one reader; as many decode calls as pictures
        let mut all = vec![];
        for c in &case.calls {
            all.extend_from_slice(&c.bytes);
            fp = fnv64_more(fp, &c.bytes);
        }
        let (src, _data, delivered) = crate::sut::CountRead::new(&all);
        let chunk = [usize::MAX, 1, 2, 5, 4096][(fp % 5) as usize];
        let interrupts = if (fp >> 8) % 4 == 1 { 2 + ((fp >> 12) % 5) as usize } else { 0 };
        if interrupts > 0 {
            rep.count("histories_over_an_interrupting_source");
        }
        let mut rd = H263Reader::from_source(src.with_chunk(chunk).with_interrupts(interrupts));
        for (k, c) in case.calls.iter().enumerate() {
            // domain guard at the position the next header will really be read from
            let at = crate::sut::abs_pos(&rd, &delivered);
            if let Some((w, h)) = declared_size_at(&all, at, case.sorenson) {
                if w as u64 * h as u64 > limit {
                    rep.count("out_of_domain_size");
                    return;
                }
            }
            let _ = h263_rs::verif::take_mb_log();
            let out = dec.decode_with(&mut rd);
            let log = h263_rs::verif::take_mb_log();
            rep.count("decode_calls");
            rep.count(&format!("class={}", c.class));
            rep.count(&format!("outcome={}", out.short()));
            if !log.is_empty() {
                entered_loop = true;
                rep.add("mb_loop_iterations_observed", log.len() as u64);
            }
            if let Some(m) = check_progress(&log) {
                rep.violation("no-progress", format!("call {} (one reader): {} :: {}", k, m, detail_hist()), coords());
            }
            if let Outcome::Panic { msg, loc } = &out {
                rep.violation(format!("panic@{}", loc), format!("{} call {} ({}) of one-reader history panicked: '{}' :: {}", opt, k, c.class, msg, detail_hist()), coords());
                return;
            }
        }
    } else {
        rep.count("history_mode=reader-per-call");
        // the per-call sources deliver everything at once, or a few bytes per read call with `Interrupted` answers in between
        let fp0 = case.calls.iter().fold(fp, |h, c| fnv64_more(h, &c.bytes));
        dec.chunk = [usize::MAX, usize::MAX, 1, 3, 64][(fp0 % 5) as usize];
        if dec.chunk != usize::MAX && (fp0 >> 8) % 2 == 1 {
            dec.interrupt_every = 2 + ((fp0 >> 12) % 5) as usize;
            rep.count("histories_over_an_interrupting_source");
        }
        for (k, c) in case.calls.iter().enumerate() {
            fp = fnv64_more(fp, &c.bytes);
            if let Some((w, h)) = declared_size(&c.bytes, case.sorenson) {
                if w as u64 * h as u64 > limit {
                    rep.count("out_of_domain_size");
                    continue;
                }
            }
            let _ = h263_rs::verif::take_mb_log();
            let out = dec.decode(&c.bytes);
            let log = h263_rs::verif::take_mb_log();
            rep.count("decode_calls");
            rep.count(&format!("class={}", c.class));
            rep.count(&format!("outcome={}", out.short()));
            if !log.is_empty() {
                entered_loop = true;
                rep.add("mb_loop_iterations_observed", log.len() as u64);
            }
            if let Some(m) = check_progress(&log) {
                rep.violation("no-progress", format!("call {}: {} :: {}", k, m, detail_hist()), coords());
            }
            if let Outcome::Panic { msg, loc } = &out {
                rep.violation(format!("panic@{}", loc), format!("{} call {} ({}) panicked: '{}' :: history = {}", opt, k, c.class, msg, detail_hist()), coords());
                return;
            }
        }
        // occasionally also exercise cleanup + accessors after the history
        let _ = catch(|| {
            dec.st.cleanup_buffers();
            dec.snapshot()
        })
        .map_err(|p| rep.violation(format!("panic@{}", p.loc), format!("panic in accessors after history: {}", p.msg), coords()));
    }
    if entered_loop {
        rep.distinct.insert(fp);
    }
}

pub fn case(ctx: &Ctx, shard: usize, index: u64, rep: &mut Report) {
    let mut rng = Rng::new(ctx.seed ^ 0xC01, ((shard as u64) << 40) | index);
    let c = gen_case(&mut rng);
    rep.evaluations += 1;
    let coords = || crate::mon::coords("C01", ctx, shard, index);
    if shard == 0 && index < 4 {
        rep.sample(8, || J::obj().set("sorenson", c.sorenson).set("scalability", c.scal).set("one_reader", c.one_reader).set("calls", J::Arr(c.calls.iter().map(|k| J::obj().set("class", k.class).set("len", k.bytes.len()).set("bytes_prefix", hex(&k.bytes[..k.bytes.len().min(20)]))).collect())));
    }
    if std::env::var("HV_DUMP").is_ok() {
        for k in &c.calls {
            eprintln!("DUMP sorenson={} scal={} one_reader={} class={} declared={:?} bytes={}", c.sorenson, c.scal, c.one_reader, k.class, declared_size(&k.bytes, c.sorenson), hex(&k.bytes));
        }
    }
    run_case(ctx, &c, &coords, rep);
}

pub fn replay(ctx: &Ctx, j: &J, rep: &mut Report) {
    if let Some(h) = j.get("raw_history").and_then(|h| h.as_arr()) {
        // explicit byte history (e.g. from a fuzzer artifact)
        let sorenson = matches!(j.get("sorenson"), Some(J::Bool(true)));
        let scal = matches!(j.get("scal"), Some(J::Bool(true)));
        let calls: Vec<Call> = h.iter().map(|b| Call { bytes: crate::util::unhex(b.as_str().unwrap_or("")), class: "raw" }).collect();
        let c = Case { sorenson, scal, one_reader: false, calls };
        let jj = j.clone();
        run_case(ctx, &c, &move || jj.clone(), rep);
        return;
    }
    let shard = j.get("shard").and_then(|s| s.as_i64()).unwrap_or(0) as usize;
    let index = j.get("index").and_then(|s| s.as_i64()).unwrap_or(0) as u64;
    case(ctx, shard, index, rep);
}

/// `hv corpus <dir> <seed>`: seed corpus for the coverage-guided stage, from the hostile generator.
pub fn write_corpus(dir: &str, seed: u64) -> i32 {
    let mut n = 0;
    for i in 0..1500u64 {
        let mut rng = Rng::new(seed ^ 0xC01, (9999u64 << 40) | i);
        let c = gen_case(&mut rng);
        for k in &c.calls {
            if k.bytes.len() > 4000 {
                continue;
            }
            let mut d = vec![(c.sorenson as u8) | ((c.scal as u8) << 1)];
            d.extend_from_slice(&k.bytes);
            if std::fs::write(format!("{}/seed-{:05}", dir, n), d).is_err() {
                return 1;
            }
            n += 1;
        }
    }
    println!("wrote {} corpus files", n);
    0
}

// ------------------------------------------------------------------------------------------
// worker process + driver
// ------------------------------------------------------------------------------------------

fn arg(args: &[String], name: &str) -> Option<String> {
    args.iter().position(|a| a == name).and_then(|i| args.get(i + 1).cloned())
}

/// `hv worker --tier T --seed S --stage X --scale P --shard K --start A --count N`
/// Protocol on stdout: "B <index>" before each case, "R <json>" at the end.
pub fn worker_main(args: &[String]) -> i32 {
    let tier = if arg(args, "--tier").as_deref() == Some("thorough") { Tier::Thorough } else { Tier::Quick };
    let ctx = Ctx { tier, seed: arg(args, "--seed").and_then(|s| s.parse().ok()).unwrap_or(1), threads: 1, stage: arg(args, "--stage").unwrap_or_else(|| "chk".into()), scale_pct: arg(args, "--scale").and_then(|s| s.parse().ok()).unwrap_or(100) };
    let shard: usize = arg(args, "--shard").and_then(|s| s.parse().ok()).unwrap_or(0);
    let start: u64 = arg(args, "--start").and_then(|s| s.parse().ok()).unwrap_or(0);
    let count: u64 = arg(args, "--count").and_then(|s| s.parse().ok()).unwrap_or(1);
    let out = std::io::stdout();
    let mut rep = Report::new();
    for i in start..start + count {
        {
            let mut o = out.lock();
            let _ = writeln!(o, "B {}", i);
            let _ = o.flush();
        }
        crate::mon::guarded(&mut rep, || crate::mon::coords("C01", &ctx, shard, i), |rep| case(&ctx, shard, i, rep));
    }
    let j = rep.to_json("C01", &ctx.stage, ctx.tier_name(), ctx.seed, "", 0.0);
    let mut o = out.lock();
    let _ = writeln!(o, "R {}", j.to_string());
    let _ = o.flush();
    0
}

fn report_from_json(j: &J, rep: &mut Report) {
    rep.evaluations += j.get("evaluations").and_then(|v| v.as_i64()).unwrap_or(0) as u64;
    rep.distinct_enumerated += 0;
    if let Some(J::Obj(m)) = j.get("counters") {
        for (k, v) in m {
            rep.add(k, v.as_i64().unwrap_or(0) as u64);
        }
    }
    if let Some(a) = j.get("samples").and_then(|s| s.as_arr()) {
        for s in a {
            rep.sample(8, || s.clone());
        }
    }
    if let Some(a) = j.get("violations").and_then(|s| s.as_arr()) {
        for v in a {
            let sig = v.get("sig").and_then(|s| s.as_str()).unwrap_or("?").to_string();
            let n = v.get("count").and_then(|s| s.as_i64()).unwrap_or(1);
            for _ in 0..n.min(1000) {
                rep.violation(sig.clone(), v.get("detail").and_then(|s| s.as_str()).unwrap_or("").to_string(), v.get("replay").cloned().unwrap_or(J::Null));
            }
        }
    }
    if let Some(a) = j.get("inconclusive").and_then(|s| s.as_arr()) {
        for s in a {
            rep.inconclusive.push(s.as_str().unwrap_or("").to_string());
        }
    }
    // distinct fingerprints are per worker; workers use disjoint case coordinates and the
    // fingerprint covers all bytes, so the sum is used (documented in the evidence rule)
    rep.distinct_enumerated += j.get("distinct_nontrivial").and_then(|v| v.as_i64()).unwrap_or(0) as u64;
}

enum WorkerEnd {
    Done(J),
    Died { at: Option<u64>, status: String },
    Stalled { at: Option<u64> },
}

fn spawn_worker(ctx: &Ctx, shard: usize, start: u64, count: u64, stall: Duration) -> WorkerEnd {
    let exe = std::env::current_exe().expect("current_exe");
    let use_ulimit = ctx.stage == "chk" || ctx.stage == "rel";
    let cmdline = format!(
        "{}exec '{}' worker --tier {} --seed {} --stage {} --scale {} --shard {} --start {} --count {}",
        if use_ulimit { "ulimit -v 6000000; " } else { "" },
        exe.display(),
        ctx.tier_name(),
        ctx.seed,
        ctx.stage,
        ctx.scale_pct,
        shard,
        start,
        count
    );
    let mut child = match Command::new("sh").arg("-c").arg(&cmdline).stdout(Stdio::piped()).stderr(Stdio::piped()).spawn() {
        Ok(c) => c,
        Err(e) => return WorkerEnd::Died { at: None, status: format!("spawn failed: {}", e) },
    };
    let stdout = child.stdout.take().unwrap();
    let stderr = child.stderr.take().unwrap();
    let (tx, rx) = mpsc::channel::<String>();
    let t = std::thread::spawn(move || {
        for line in BufReader::new(stdout).lines().map_while(Result::ok) {
            if tx.send(line).is_err() {
                break;
            }
        }
    });
    let te = std::thread::spawn(move || {
        let mut tail: Vec<String> = vec![];
        for line in BufReader::new(stderr).lines().map_while(Result::ok) {
            tail.push(line);
            if tail.len() > 40 {
                tail.remove(0);
            }
        }
        tail
    });
    let mut at: Option<u64> = None;
    let mut result: Option<J> = None;
    let mut stalled = false;
    loop {
        match rx.recv_timeout(stall) {
            Ok(line) => {
                if let Some(r) = line.strip_prefix("B ") {
                    at = r.trim().parse().ok();
                } else if let Some(r) = line.strip_prefix("R ") {
                    result = J::parse(r).ok();
                }
            }
            Err(mpsc::RecvTimeoutError::Timeout) => {
                stalled = true;
                let _ = child.kill();
                break;
            }
            Err(mpsc::RecvTimeoutError::Disconnected) => break,
        }
    }
    let status = child.wait();
    let _ = t.join();
    let tail = te.join().unwrap_or_default();
    if stalled {
        return WorkerEnd::Stalled { at };
    }
    match (result, status) {
        (Some(j), Ok(s)) if s.success() => WorkerEnd::Done(j),
        (_, Ok(s)) => {
            use std::os::unix::process::ExitStatusExt;
            let what = if let Some(sig) = s.signal() { format!("signal {}", sig) } else { format!("exit code {:?}", s.code()) };
            let asan = tail.iter().find(|l| l.contains("ERROR: AddressSanitizer") || l.contains("runtime error") || l.contains("memory allocation of")).cloned().unwrap_or_default();
            WorkerEnd::Died { at, status: format!("{} {}", what, asan) }
        }
        (_, Err(e)) => WorkerEnd::Died { at, status: format!("wait failed: {}", e) },
    }
}

pub fn run(ctx: &Ctx) -> (Report, String) {
    if ctx.miri() {
        // no subprocesses under the interpreter: run a small slice in-process
        let reps = crate::util::par_shards(16, 1, |s| {
            let mut rep = Report::new();
            for i in 0..12 {
                crate::mon::guarded(&mut rep, || crate::mon::coords("C01", ctx, s, i), |rep| case(ctx, s, i, rep));
            }
            rep
        });
        return (Report::merge_all(reps), rule());
    }
    // shards are small worker processes; a crash loses at most one shard's counters
    let shards: usize = if ctx.tier == Tier::Quick { 64 } else { 640 };
    let per_shard: u64 = ctx.n(12000, 12000);
    let stall = Duration::from_secs(if ctx.stage == "chk" || ctx.stage == "rel" { 60 } else { 240 });
    let reps = crate::util::par_shards(shards, ctx.threads, |s| {
        let mut rep = Report::new();
        let mut start = 0u64;
        let mut restarts = 0;
        while start < per_shard {
            match spawn_worker(ctx, s, start, per_shard - start, stall) {
                WorkerEnd::Done(j) => {
                    report_from_json(&j, &mut rep);
                    break;
                }
                WorkerEnd::Died { at, status } => {
                    let Some(i) = at else {
                        rep.inconclusive.push(format!("worker for shard {} died before its first case: {}", s, status));
                        break;
                    };
                    // confirm in a fresh isolated worker
                    match spawn_worker(ctx, s, i, 1, stall * 2) {
                        WorkerEnd::Done(_) => rep.count("worker_deaths_not_reproduced"),
                        WorkerEnd::Died { status: st2, .. } => {
                            let kind = st2.split_whitespace().take(2).collect::<Vec<_>>().join("-");
                            rep.violation(format!("abort/{}", kind), format!("worker process died on case shard={} index={}: {} (confirmed in isolation: {})", s, i, status, st2), crate::mon::coords("C01", ctx, s, i));
                        }
                        WorkerEnd::Stalled { .. } => rep.violation("hang", format!("case shard={} index={} did not finish within {:?} in isolation", s, i, stall * 2), crate::mon::coords("C01", ctx, s, i)),
                    }
                    start = i + 1;
                    restarts += 1;
                }
                WorkerEnd::Stalled { at } => {
                    let Some(i) = at else {
                        rep.inconclusive.push(format!("worker for shard {} stalled before its first case", s));
                        break;
                    };
                    match spawn_worker(ctx, s, i, 1, stall * 4) {
                        WorkerEnd::Done(_) => rep.count("stalls_not_reproduced"),
                        WorkerEnd::Stalled { .. } => rep.violation("hang", format!("case shard={} index={} made no progress for {:?}, and again for {:?} in isolation", s, i, stall, stall * 4), crate::mon::coords("C01", ctx, s, i)),
                        WorkerEnd::Died { status, .. } => rep.violation("abort/after-stall", format!("case shard={} index={} stalled, then died in isolation: {}", s, i, status), crate::mon::coords("C01", ctx, s, i)),
                    }
                    start = i + 1;
                    restarts += 1;
                }
            }
            if restarts > 50 {
                rep.inconclusive.push(format!("shard {} abandoned after 50 worker restarts", s));
                break;
            }
        }
        rep
    });
    let mut rep = Report::merge_all(reps);
    if ctx.is_main() {
        rep.require("decode_calls", if ctx.tier == Tier::Quick { 1_000_000 } else { 10_000_000 } * ctx.scale_pct / 100);
        rep.require("mb_loop_iterations_observed", 1_000_000 * ctx.scale_pct / 100);
        for k in ["class=ladder-size", "class=dquant-run", "class=stuffing-run", "outcome=Ok", "class=mutated", "class=extra-macroblocks", "class=size-change", "class=umv-chain", "class=degenerate-header", "history_mode=one-reader", "histories_over_an_interrupting_source", "options=sorenson:true/scal:false", "options=sorenson:false/scal:false", "options=sorenson:true/scal:true", "options=sorenson:false/scal:true"] {
            rep.require(k, 100 * ctx.scale_pct / 100);
        }
    }
    (rep, rule())
}

#[allow(dead_code)]
fn _unused(_: Result<Result<(), h263_rs::Error>, crate::util::Panic>) -> Outcome {
    outcome_of(Ok(Ok(())))
}
