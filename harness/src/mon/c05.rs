//! C05 - a failed decode changes nothing and can be retried.
//! Twin runs + snapshot comparison + reader-position checks + split delivery.

use super::c04::vector_field_picture;
use crate::gen::*;
use crate::json::J;
use crate::model::bits::bits_at;
use crate::model::syntax::*;
use crate::model::tables::*;
use crate::report::Report;
use crate::sut::{abs_pos, CountRead, Dec, Outcome};
use crate::util::{catch, fnv64, fnv64_more, hex, par_shards, Rng};
use crate::{Ctx, Tier};
use h263_rs::parser::H263Reader;

pub fn rule() -> String {
    "cases = (valid history H, failing input X built by corrupting a valid picture at a chosen syntax element / depth, valid continuation V1..Vk): decoder A sees H,X,V and its twin B sees H,V; outcomes and (header, planes) must agree pairwise and A's snapshot must be unchanged across X; the same X is also presented in a shared reader after a valid picture, where the reader position (hook) and the bits read afterwards must equal the pre-call position; plus every byte split point of valid pictures through a growing source (retry after appending must equal the one-shot decode); distinct by hash of all bytes; non-trivial = X actually failed with an error value".into()
}

#[derive(Clone, Copy, Debug)]
enum Fault {
    NoStartCode,
    BadMarker,
    ReservedSize,
    ReservedType,
    TruncateAt(usize),
    McbpcInvalid(usize),
    CbpyInvalid(usize),
    IntraDcInvalid(usize, usize),
    ShortCoefInvalid(usize, usize),
    LongCoefZero(usize, usize),
    MvdInvalid(usize),
    NoReferenceForP,
    SizeMismatchP,
    Unimplemented,
}

impl Fault {
    fn depth(&self) -> &'static str {
        match self {
            Fault::NoStartCode | Fault::BadMarker | Fault::ReservedSize | Fault::ReservedType | Fault::Unimplemented => "header",
            Fault::TruncateAt(_) => "truncation",
            Fault::McbpcInvalid(_) | Fault::CbpyInvalid(_) | Fault::MvdInvalid(_) => "macroblock-header",
            Fault::IntraDcInvalid(..) | Fault::ShortCoefInvalid(..) | Fault::LongCoefZero(..) => "block-data",
            Fault::NoReferenceForP | Fault::SizeMismatchP => "prediction",
        }
    }
}

/// Build a failing input by corrupting a valid picture. Returns (bytes, fault).
fn make_failing(rng: &mut Rng, cfg: &PicCfg, have_ref: bool) -> (Vec<u8>, Fault) {
    let sorenson = cfg.flavour.sorenson();
    let inter = have_ref && rng.chance(1, 2);
    let mut pic = if inter {
        // in Sorenson streams the failing picture is sometimes a disposable one
        let ptype = if sorenson && rng.chance(1, 3) { 2 } else { 0 };
        gen_inter(rng, cfg, &InterCfg { ptype, big_vectors_pct: 30, residual_pct: 60, truncate: None, allow_q: true })
    } else {
        gen_intra(rng, cfg)
    };
    let nmb = pic.mbs.len().max(1);
    let m = rng.below(nmb as u64) as usize;
    let b = rng.below(6) as usize;
    let fault = match rng.below(13) {
        0 => Fault::NoStartCode,
        1 => Fault::BadMarker,
        2 => Fault::ReservedSize,
        3 => Fault::ReservedType,
        4 | 5 => Fault::TruncateAt(0),
        6 => Fault::McbpcInvalid(m),
        7 => Fault::CbpyInvalid(m),
        8 => Fault::IntraDcInvalid(m, b),
        9 => Fault::ShortCoefInvalid(m, b),
        10 => Fault::LongCoefZero(m, b),
        11 => Fault::MvdInvalid(m),
        _ => Fault::Unimplemented,
    };
    let intra_pic = pic.is_intra_picture();
    match fault {
        Fault::NoStartCode => {
            let mut bytes = pic.encode();
            bytes[0] = 0x40 | rng.byte();
            return (bytes, fault);
        }
        Fault::BadMarker => match &mut pic.hdr {
            Hdr::Std(_) => {
                let mut bytes = pic.encode();
                bytes[3] ^= 0x02; // PTYPE bit 1 (always "1") sits at bit 30
                return (bytes, fault);
            }
            Hdr::Sor(h) => {
                h.size = crate::model::header::SorSize::Reserved7;
            }
        },
        Fault::ReservedSize => match &mut pic.hdr {
            Hdr::Sor(h) => h.size = crate::model::header::SorSize::Reserved7,
            Hdr::Std(h) => {
                h.plus = None;
                h.fmt = 6;
            }
        },
        Fault::ReservedType | Fault::Unimplemented => match &mut pic.hdr {
            Hdr::Sor(h) => h.ptype = 3,
            Hdr::Std(h) => {
                if let Some(p) = h.plus.as_mut() {
                    p.ptype = 3; // B picture: unimplemented
                } else {
                    h.pb = true;
                }
            }
        },
        Fault::TruncateAt(_) => {
            let bytes = pic.encode();
            let at = rng.below(bytes.len() as u64) as usize;
            return (bytes[..at].to_vec(), Fault::TruncateAt(at));
        }
        Fault::McbpcInvalid(m) => {
            pic.mbs[m] = SymMb::Raw(vec![(0, if intra_pic { 9 } else { 10 }), (0x3ff, 10)]);
        }
        Fault::CbpyInvalid(m) => {
            let mc = if intra_pic { MCBPC_I[0][0] } else { MCBPC_P[0][0] };
            let mut g = vec![];
            if !intra_pic {
                g.push((0, 1));
            }
            g.push(mc);
            g.push((0b000001, 6)); // 00000x is no CBPY code
            pic.mbs[m] = SymMb::Raw(g);
        }
        Fault::IntraDcInvalid(m, b) => {
            let bad = *rng.pick(&[0u8, 128]);
            pic.mbs[m] = SymMb::Coded { kind: MbKind::Intra, dquant: 1, mvd: [[0; 2]; 4], blocks: std::array::from_fn(|i| SymBlock { intradc: Some(if i == b { bad } else { 90 }), events: vec![] }) };
        }
        Fault::ShortCoefInvalid(m, b) | Fault::LongCoefZero(m, b) => {
            let ev = if matches!(fault, Fault::ShortCoefInvalid(..)) { Ev { run: 0, level: 0, esc: Esc::Short } } else { Ev { run: 1, level: 0, esc: if cfg.flavour == Flavour::Sor(1) { Esc::Esc7 } else { Esc::Esc8 } } };
            pic.mbs[m] = SymMb::Coded { kind: MbKind::Intra, dquant: 1, mvd: [[0; 2]; 4], blocks: std::array::from_fn(|i| SymBlock { intradc: Some(90), events: if i == b { vec![ev] } else { vec![] } }) };
        }
        Fault::MvdInvalid(m) => {
            if intra_pic {
                // no vectors in intra pictures: fall back to an invalid INTRADC
                pic.mbs[m] = SymMb::Coded { kind: MbKind::Intra, dquant: 1, mvd: [[0; 2]; 4], blocks: std::array::from_fn(|_| SymBlock { intradc: Some(0), events: vec![] }) };
            } else {
                pic.mbs[m] = SymMb::Coded { kind: MbKind::Inter, dquant: 1, mvd: [[99, 0], [0; 2], [0; 2], [0; 2]], blocks: std::array::from_fn(|_| SymBlock::default()) };
            }
        }
        Fault::NoReferenceForP | Fault::SizeMismatchP => {}
    }
    let _ = sorenson;
    (pic.encode(), fault)
}

fn snapshot_eq(a: &Dec, b: &Dec) -> bool {
    a.snapshot() == b.snapshot()
}

pub fn case(ctx: &Ctx, shard: usize, index: u64, rep: &mut Report) {
    let mut rng = Rng::new(ctx.seed ^ 0xC05, ((shard as u64) << 40) | index);
    rep.evaluations += 1;
    let coords = || crate::mon::coords("C05", ctx, shard, index);
    let sorenson = rng.chance(2, 3);
    let flavour = if sorenson { Flavour::Sor(rng.below(2) as u8) } else { Flavour::StdPlus };
    let (w, h) = gen_size(&mut rng, 56);
    let (w, h) = if sorenson { (w, h) } else { (((w + 3) / 4 * 4).clamp(4, 2048), ((h + 3) / 4 * 4).clamp(4, 1152)) };
    let mut cfg = gen_cfg(&mut rng, flavour, w, h);
    cfg.pei = 0;
    // ---- history ----
    // usually 0-3 pictures before the failing input; now and then several hundred (16x16, cheap)
    let long_history = sorenson && rng.chance(1, 400);
    let hlen = if long_history { 300 + rng.below(300) as usize } else { rng.below(4) as usize };
    if long_history {
        cfg.w = 16;
        cfg.h = 16;
        rep.count("long_histories");
    }
    let mut hist: Vec<Vec<u8>> = vec![];
    for i in 0..hlen {
        cfg.tr = cfg.tr.wrapping_add(1);
        if i == 0 {
            hist.push(gen_reference(&mut rng, &cfg).encode());
        } else {
            let disp = sorenson && rng.chance(1, 4);
            hist.push(vector_field_picture(&mut rng, &cfg, disp).encode());
        }
    }
    let have_ref = hlen > 0;
    // ---- failing input ---- (its temporal reference is the next one, or - one time in three - that of the picture before it)
    if hlen == 0 || !rng.chance(1, 3) {
        cfg.tr = cfg.tr.wrapping_add(1);
    } else {
        rep.count("failing_input_repeats_the_temporal_reference");
    }
    // ... or a *valid but unusual* picture: whether a decoder takes it or not, a refusal must change nothing
    // (an intra-only predicted / disposable picture where no reference exists, or of another size)
    let unusual = rng.chance(1, 12);
    let (x, fault) = if unusual {
        let mut c2 = cfg.clone();
        if have_ref && rng.chance(1, 2) {
            c2.w += if sorenson { 1 + rng.below(20) as usize } else { 4 * (1 + rng.below(5) as usize) };
        }
        let mut q = gen_intra(&mut rng, &c2);
        match &mut q.hdr {
            Hdr::Sor(hd) => hd.ptype = 1 + rng.below(2) as u8,
            Hdr::Std(hd) => {
                hd.inter = true;
                if let Some(pl) = hd.plus.as_mut() {
                    pl.ptype = 1;
                }
            }
        }
        rep.count("valid_but_unusual_inputs");
        (q.encode(), Fault::Unimplemented)
    } else if !have_ref && rng.chance(1, 6) {
        (vector_field_picture(&mut rng, &cfg, false).encode(), Fault::NoReferenceForP)
    } else if have_ref && rng.chance(1, 8) {
        // a complete, well-formed predicted picture of another size: fails only in the prediction
        // step, after every macroblock has been parsed
        let mut c2 = cfg.clone();
        if rng.chance(1, 2) {
            c2.w += if sorenson { 1 + rng.below(20) as usize } else { 4 * (1 + rng.below(5) as usize) };
        } else {
            c2.h += if sorenson { 1 + rng.below(20) as usize } else { 4 * (1 + rng.below(5) as usize) };
        }
        let mut xp = vector_field_picture(&mut rng, &c2, false);
        if rng.chance(1, 2) {
            // ... that also ends early: in a shared reader the macroblock loop then stops at whatever follows
            let n = xp.mbs.len();
            xp.mbs.truncate(rng.below(n as u64) as usize);
            rep.count("prediction_failures_ending_early");
        }
        (xp.encode(), Fault::SizeMismatchP)
    } else {
        make_failing(&mut rng, &cfg, have_ref)
    };
    // ---- continuation ----
    let k = 1 + rng.below(3) as usize;
    let mut cont: Vec<Vec<u8>> = vec![];
    let mut will_have_ref = have_ref;
    for _ in 0..k {
        cfg.tr = cfg.tr.wrapping_add(1);
        if will_have_ref && rng.chance(2, 3) {
            let ic = InterCfg { ptype: if sorenson && rng.chance(1, 5) { 2 } else { 0 }, big_vectors_pct: 30, residual_pct: 40, truncate: None, allow_q: true };
            cont.push(gen_inter(&mut rng, &cfg, &ic).encode());
        } else {
            cont.push(gen_intra(&mut rng, &cfg).encode());
            will_have_ref = true;
        }
    }
    let mut fp = fnv64(&x);
    for b in hist.iter().chain(cont.iter()) {
        fp = fnv64_more(fp, b);
    }
    let describe = || format!("{} {}x{} history {} pictures, fault {:?}, continuation {} pictures; X = {}", flavour.name(), w, h, hlen, fault, k, hex(&x[..x.len().min(64)]));
    // ---- twins ----
    let scal = sorenson && rng.chance(1, 4);
    let mut a = Dec::new(sorenson, scal);
    let mut b = Dec::new(sorenson, scal);
    // the twins' sources deliver their bytes differently (whole, or a few bytes per read call)
    a.chunk = *rng.pick(&[usize::MAX, usize::MAX, 1, 3, 64]);
    b.chunk = *rng.pick(&[usize::MAX, usize::MAX, 2, 7, 1000]);
    // ... and A's source may fail one read call per picture with a transient error (the call is repeated)
    if rng.chance(1, 5) {
        a.stall = Some((rng.below(1001) as usize, rng.below(3) as u8));
    }
    for p in &hist {
        let (oa, ob) = (a.decode(p), b.decode(p));
        if oa != Outcome::Ok || ob != Outcome::Ok {
            rep.count("void:history-failed");
            return;
        }
    }
    let before = a.snapshot();
    let ref_of = |d: &Dec| d.st.get_reference_picture().map(|p| (crate::sut::view_of(p.as_header()), p.as_yuv().0.to_vec(), p.as_yuv().1.to_vec()));
    let ref_before = ref_of(&a);
    let ox = a.decode(&x);
    match &ox {
        Outcome::Ok => {
            // the corruption happened to leave a decodable picture: not a failed call
            rep.count(&format!("not-failed:{}", fault.depth()));
            return;
        }
        Outcome::Panic { msg, loc } => {
            rep.violation(format!("panic@{}", loc), format!("{} :: {}", msg, describe()), coords());
            return;
        }
        Outcome::Err(kind) => {
            rep.count(&format!("failure:{}:{}", fault.depth(), kind));
            rep.count(&format!("depth={}", fault.depth()));
        }
    }
    if a.snapshot() != before {
        rep.violation(format!("state-changed/{}", fault.depth()), format!("most recent picture changed across a failed call ({}) :: {}", ox.short(), describe()), coords());
        return;
    }
    if ref_of(&a) != ref_before {
        rep.violation(format!("reference-changed/{}", fault.depth()), format!("the reference picture changed across a failed call ({}) :: {}", ox.short(), describe()), coords());
        return;
    }
    rep.count("reference_unchanged_checks");
    if !snapshot_eq(&a, &b) {
        rep.violation("twin-diverged/immediately", describe(), coords());
        return;
    }
    for (i, v) in cont.iter().enumerate() {
        let (oa, ob) = (a.decode(v), b.decode(v));
        if let Outcome::Panic { msg, loc } = &oa {
            rep.violation(format!("panic@{}", loc), format!("{} :: {}", msg, describe()), coords());
            return;
        }
        if oa != ob || !snapshot_eq(&a, &b) {
            rep.violation(format!("twin-diverged/{}", fault.depth()), format!("continuation picture {}: decoder that saw the failing input gave {} and its twin {} (snapshots equal: {}) :: {}", i, oa.short(), ob.short(), snapshot_eq(&a, &b), describe()), coords());
            return;
        }
        rep.count("continuation_steps_compared");
    }
    rep.count(&format!("continuation_len={}", k));
    rep.add("calls_repeated_after_transient_source_error", a.stalls_retried as u64);
    // ---- same failing input in a shared reader, after a valid picture ----
    {
        let lead = gen_intra(&mut rng, &cfg).encode();
        let mut all = lead.clone();
        // between the two pictures the caller may read a few bytes of its own through the same reader (a
        // container's length field, say) - bits consumed since the last commit when the failing call begins
        let prefix: Vec<u8> = if rng.chance(1, 3) { (0..1 + rng.below(3)).map(|_| rng.byte()).collect() } else { vec![] };
        all.extend_from_slice(&prefix);
        all.extend_from_slice(&x);
        // what follows the failing input: arbitrary bytes, or the start of another picture
        let follow_picture = rng.chance(1, 2);
        if follow_picture {
            all.extend_from_slice(&gen_intra(&mut rng, &cfg).encode());
        }
        all.extend_from_slice(&[0xA5, 0x5A, 0xC3, 0x3C, 0x96, 0x69]);
        let mut d = Dec::new(sorenson, false);
        let r = catch(|| {
            let (src, _data, delivered) = CountRead::new(&all);
            let mut rd = H263Reader::from_source(src);
            let o1 = crate::sut::outcome_of(catch(|| d.st.decode_next_picture(&mut rd)));
            if o1 != Outcome::Ok {
                return None;
            }
            for _ in 0..prefix.len() {
                let _ = rd.read_u8();
            }
            let p0 = abs_pos(&rd, &delivered);
            let snap0 = d.snapshot();
            let o2 = crate::sut::outcome_of(catch(|| d.st.decode_next_picture(&mut rd)));
            let p1 = abs_pos(&rd, &delivered);
            let snap_same = d.snapshot() == snap0;
            let got: Result<u32, _> = rd.read_bits(24);
            Some((o2, p0, p1, snap_same, got.ok()))
        });
        match r {
            Err(p) => rep.violation(format!("panic@{}", p.loc), format!("shared-reader scenario: {} :: {}", p.msg, describe()), coords()),
            Ok(None) => rep.count("void:lead-picture-failed"),
            Ok(Some((o2, p0, p1, snap_same, got))) => {
                if let Outcome::Err(_) = o2 {
                    if p1 != p0 {
                        rep.violation("reader-position", format!("reader at absolute bit {} before the failed call and at {} after it :: {}", p0, p1, describe()), coords());
                        return;
                    }
                    if got.map(|g| g as u64) != bits_at(&all, p0, 24) {
                        rep.violation("reader-bits", format!("bits read after the failed call ({:?}) are not the source's bits at the pre-call position {} ({:?}) :: {}", got, p0, bits_at(&all, p0, 24), describe()), coords());
                        return;
                    }
                    if !snap_same {
                        rep.violation("state-changed/shared-reader", describe(), coords());
                        return;
                    }
                    rep.count("shared_reader_position_checks");
                    if !prefix.is_empty() {
                        rep.count("shared_reader_position_checks_after_caller_reads");
                    }
                    if follow_picture {
                        rep.count("shared_reader_position_checks_before_another_picture");
                        rep.count(&format!("shared_reader_before_picture:{}:{}", if sorenson { "sorenson" } else { "standard" }, fault.depth()));
                    }
                    rep.count(&format!("shared_reader_phase={}", p0 % 8));
                }
            }
        }
    }
    rep.distinct.insert(fp);
    if shard == 0 && index < 6 {
        rep.sample(8, || J::obj().set("flavour", flavour.name()).set("w", w).set("h", h).set("history_pictures", hlen).set("fault", format!("{:?}", fault)).set("failure", ox.short()).set("continuation_pictures", k).set("failing_input_prefix", hex(&x[..x.len().min(32)])));
    }
}

/// Split delivery: every byte split point of a valid picture through a growing source.
fn split_case(ctx: &Ctx, shard: usize, index: u64, rep: &mut Report) {
    let mut rng = Rng::new(ctx.seed ^ 0xC055, ((shard as u64) << 40) | index);
    let sorenson = rng.chance(2, 3);
    let flavour = if sorenson { Flavour::Sor(rng.below(2) as u8) } else { Flavour::StdPlus };
    let smax = if rng.chance(1, 8) { 64 } else { 40 };
    let (w, h) = gen_size(&mut rng, smax);
    let (w, h) = if sorenson { (w, h) } else { (((w + 3) / 4 * 4).clamp(4, 2048), ((h + 3) / 4 * 4).clamp(4, 1152)) };
    let mut cfg = gen_cfg(&mut rng, flavour, w, h);
    // extra-information bytes move the header's last flag bits across byte boundaries (every 8th flag starts a byte)
    cfg.pei = *rng.pick(&[0usize, 0, 0, 1, 2, 6, 7, 8, 9, 15, 16]);
    let with_hist = rng.chance(1, 2);
    let hist = gen_reference(&mut rng, &cfg).encode();
    cfg.tr = cfg.tr.wrapping_add(1);
    let sym = if with_hist && rng.chance(1, 2) { gen_inter(&mut rng, &cfg, &InterCfg { ptype: 0, big_vectors_pct: 30, residual_pct: 50, truncate: None, allow_q: true }) } else { gen_intra(&mut rng, &cfg) };
    // where the picture header ends, where each macroblock starts and where its header ends (block data starts)
    let (_, mb_starts, mb_hdr_ends) = sym.encode_bits_ex();
    let pic = sym.encode();
    let coords = || crate::mon::coords("C05", ctx, shard, index).set("what", "split");
    // one-shot
    let mut one = Dec::new(sorenson, false);
    if with_hist && one.decode(&hist) != Outcome::Ok {
        rep.count("void:history-failed");
        return;
    }
    if one.decode(&pic) != Outcome::Ok {
        rep.count("void:picture-failed");
        return;
    }
    let want = one.snapshot();
    // small pictures: every split point; large ones: both ends, the neighbourhood of 4 KiB multiples and a sample
    let splits: Vec<usize> = if pic.len() <= 600 {
        (0..pic.len()).collect()
    } else {
        rep.count("split_large_pictures");
        let mut v: Vec<usize> = (0..40).chain(pic.len() - 40..pic.len()).collect();
        let mut k = 4096;
        while k < pic.len() {
            v.extend((k - 6..k + 6).filter(|x| *x < pic.len()));
            k += 4096;
        }
        for _ in 0..64 {
            v.push(rng.below(pic.len() as u64) as usize);
        }
        v
    };
    for split in splits {
        rep.evaluations += 1;
        let mut d = Dec::new(sorenson, false);
        if with_hist {
            d.decode(&hist);
        }
        let (src, data, _delivered) = CountRead::new(&pic[..split]);
        let mut src = Some(src.with_chunk(*rng.pick(&[usize::MAX, 1, 3, 5, 4096])));
        let r = catch(|| {
            let mut rd = H263Reader::from_source(src.take().unwrap());
            let o1 = crate::sut::outcome_of(catch(|| d.st.decode_next_picture(&mut rd)));
            match o1 {
                Outcome::Err(_) => {
                    data.borrow_mut().extend_from_slice(&pic[split..]);
                    let o2 = crate::sut::outcome_of(catch(|| d.st.decode_next_picture(&mut rd)));
                    (o1, Some(o2))
                }
                o => (o, None),
            }
        });
        match r {
            Err(p) => {
                rep.violation(format!("panic@{}", p.loc), format!("split delivery at byte {}: {}", split, p.msg), coords());
                return;
            }
            Ok((Outcome::Panic { msg, loc }, _)) | Ok((_, Some(Outcome::Panic { msg, loc }))) => {
                rep.violation(format!("panic@{}", loc), format!("split delivery at byte {} of {}: {}", split, pic.len(), msg), coords());
                return;
            }
            Ok((Outcome::Ok, _)) => {
                // The decoder takes data that ends inside a macroblock *header* for an early end of the picture.
                // Anything else that is missing is a lack of data and has to fail, so that it can be retried:
                // a prefix that stops inside the picture header, or inside the block data of a macroblock.
                let p = split * 8; // first missing bit
                let where_ = if p < mb_starts[0] {
                    Some("inside-picture-header")
                } else {
                    let i = (0..mb_hdr_ends.len()).find(|i| mb_starts[*i] <= p && p < mb_starts[*i + 1]);
                    match i {
                        Some(i) if p >= mb_hdr_ends[i] => Some("inside-block-data"),
                        _ => None,
                    }
                };
                if let Some(wh) = where_ {
                    rep.violation(format!("split/prefix-accepted/{}", wh), format!("{} {}x{} picture of {} bytes: the first {} bytes alone decode successfully although the data stops {} (header ends at bit {}, macroblocks start at {:?}...)", flavour.name(), w, h, pic.len(), split, wh.replace('-', " "), mb_starts[0], &mb_starts[..mb_starts.len().min(4)]), coords());
                    return;
                }
                rep.count("split:prefix-accepted-inside-a-macroblock-header-or-at-a-boundary");
            }
            Ok((Outcome::Err(e1), Some(o2))) => {
                if o2 != Outcome::Ok || d.snapshot() != want {
                    rep.violation(format!("split-retry/{}", if o2 == Outcome::Ok { "different-picture" } else { "retry-failed" }), format!("{} {}x{} picture of {} bytes split at byte {}: first call {}, retry after appending {} (one-shot result differs: {}) picture={}", flavour.name(), w, h, pic.len(), split, e1, o2.short(), d.snapshot() != want, hex(&pic[..pic.len().min(48)])), coords());
                    return;
                }
                rep.count("split:retried-ok");
                let p = split * 8;
                if p < mb_starts[0] {
                    rep.count("split:inside-picture-header:failed-and-retried");
                } else if (0..mb_hdr_ends.len()).any(|i| mb_hdr_ends[i] <= p && p < mb_starts[i + 1]) {
                    rep.count("split:inside-block-data:failed-and-retried");
                }
                rep.count(&format!("split:first-error:{}", e1));
            }
            Ok(_) => {}
        }
    }
    rep.count("split_pictures");
    rep.distinct.insert(fnv64(&pic));
}

/// Twin comparison for an explicit (history, failing input, continuation) triple; also checks that
/// the snapshot is unchanged across the failing call.
fn twin_check(sorenson: bool, hist: &[Vec<u8>], x: &[u8], cont: &[Vec<u8>], what: &str, rep: &mut Report, coords: &dyn Fn() -> J) -> bool {
    let mut a = Dec::new(sorenson, false);
    let mut b = Dec::new(sorenson, false);
    rep.evaluations += 1;
    for p in hist {
        if a.decode(p) != Outcome::Ok || b.decode(p) != Outcome::Ok {
            rep.count("ladder_void:history-failed");
            return false;
        }
    }
    let before = a.snapshot();
    match a.decode(x) {
        Outcome::Ok => {
            rep.count("ladder_void:not-failed");
            return false;
        }
        Outcome::Panic { msg, loc } => {
            rep.violation(format!("panic@{}", loc), format!("{}: {}", what, msg), coords());
            return false;
        }
        Outcome::Err(k) => rep.count(&format!("ladder_failure:{}", k)),
    }
    if a.snapshot() != before {
        rep.violation("ladder/state-changed", format!("{}: the most recent picture changed across the failed call (now present: {})", what, a.snapshot().is_some()), coords());
        return false;
    }
    for (i, v) in cont.iter().enumerate() {
        let (oa, ob) = (a.decode(v), b.decode(v));
        if oa != ob || !snapshot_eq(&a, &b) {
            rep.violation("ladder/twin-diverged", format!("{}: continuation picture {}: decoder that saw the failing input gave {}, its twin {} (snapshots equal: {})", what, i, oa.short(), ob.short(), snapshot_eq(&a, &b)), coords());
            return false;
        }
    }
    true
}

fn poison_last_mb(p: &mut crate::model::syntax::SymPicture) {
    let n = p.mbs.len();
    p.mbs[n - 1] = SymMb::Coded { kind: MbKind::Intra, dquant: 1, mvd: [[0; 2]; 4], blocks: std::array::from_fn(|i| SymBlock { intradc: Some(if i == 5 { 0 } else { 77 }), events: vec![] }) };
}

/// Boundary-value ladder for atomicity: large pictures failing at their very end after a disposable
/// picture; failed pictures that switch optional modes on; failures after 4 KiB / 64 KiB / 1 MiB
/// of consumed data in a shared reader.
pub fn ladder(ctx: &Ctx, k: usize, rep: &mut Report) {
    use super::ladder as L;
    let mut rng = Rng::new(ctx.seed ^ 0xC05AD, k as u64);
    let coords = || J::obj().set("property", "C05").set("kind", "ladder").set("tier", ctx.tier_name()).set("seed", ctx.seed).set("stage", ctx.stage.clone()).set("k", k);
    match k {
        0..=5 => {
            // large picture failing at its last macroblock, after a history that ends with a disposable picture
            let (w, h) = [(1024usize, 1024usize), (1040, 1024), (2064, 1024), (65535, 16), (16, 65535), (512, 512)][k];
            let flavour = Flavour::Sor((k % 2) as u8);
            let mut cfg = L::cfg_for(&mut rng, flavour, w, h, 0);
            let i0 = L::large_intra(&mut rng, &cfg).encode();
            cfg.tr = cfg.tr.wrapping_add(1);
            let d0 = L::large_inter(&mut rng, &cfg, true, None).encode();
            cfg.tr = cfg.tr.wrapping_add(1);
            let mut xi = L::large_intra(&mut rng, &cfg);
            poison_last_mb(&mut xi);
            cfg.tr = cfg.tr.wrapping_add(1);
            let c0 = L::large_inter(&mut rng, &cfg, false, None).encode();
            if twin_check(true, &[i0, d0], &xi.encode(), &[c0], &format!("large {}x{} I,D then an I picture failing in its last macroblock", w, h), rep, &coords) {
                rep.count("ladder_large_after_disposable");
            }
        }
        6..=25 => {
            // standard mode: a failing PLUSPTYPE picture that switches optional modes on, then baseline pictures
            let cfg = L::cfg_for(&mut rng, Flavour::StdFixed, 128, 96, 0);
            let i0 = gen_reference(&mut rng, &cfg).encode();
            let inter = rng.chance(1, 2);
            let hd = L::plus_header_with_modes(&mut rng, 128, 96, inter);
            let bad = SymMb::Coded { kind: MbKind::Intra, dquant: 1, mvd: [[0; 2]; 4], blocks: std::array::from_fn(|_| SymBlock { intradc: Some(0), events: vec![] }) };
            let x = crate::model::syntax::SymPicture { hdr: Hdr::Std(hd), w: 128, h: 96, mbs: vec![bad], stuffing: vec![] }.encode();
            let mut cont = vec![];
            let mut c = cfg.clone();
            for _ in 0..2 {
                c.tr = c.tr.wrapping_add(1);
                cont.push(gen_inter(&mut rng, &c, &InterCfg { ptype: 0, big_vectors_pct: 60, residual_pct: 30, truncate: None, allow_q: true }).encode());
            }
            if twin_check(false, &[i0], &x, &cont, "standard mode: failing PLUSPTYPE picture with optional modes, then baseline P pictures", rep, &coords) {
                rep.count("ladder_failed_modes_not_carried");
            }
        }
        _ => {
            // failure after a lot of consumed data, in a reader shared with a valid lead picture
            let bytes = [3000usize, 4090, 5000, 65530, 70000, 1_100_000][(k - 26) % 6];
            let flavour = Flavour::Sor(0);
            let cfg = L::cfg_for(&mut rng, flavour, 16, 16, 0);
            let lead = gen_intra(&mut rng, &cfg).encode();
            let mut xp = L::stuffed_picture(&mut rng, flavour, bytes, false);
            poison_last_mb(&mut xp);
            let x = xp.encode();
            let mut all = lead.clone();
            all.extend_from_slice(&x);
            all.extend_from_slice(&[0xA5, 0x5A, 0xC3, 0x3C]);
            let mut d = Dec::new(true, false);
            rep.evaluations += 1;
            let r = catch(|| {
                let (src, _data, delivered) = CountRead::new(&all);
                let mut rd = H263Reader::from_source(src);
                let o1 = crate::sut::outcome_of(catch(|| d.st.decode_next_picture(&mut rd)));
                let p0 = abs_pos(&rd, &delivered);
                let o2 = crate::sut::outcome_of(catch(|| d.st.decode_next_picture(&mut rd)));
                let p1 = catch(|| abs_pos(&rd, &delivered)).unwrap_or(usize::MAX);
                let got: Result<u32, _> = rd.read_bits(24);
                (o1, o2, p0, p1, got.ok())
            });
            match r {
                Err(p) => rep.violation(format!("panic@{}", p.loc), format!("failure after {} consumed bytes: {}", bytes, p.msg), coords()),
                Ok((o1, o2, p0, p1, got)) => {
                    if o1 != Outcome::Ok {
                        rep.count("ladder_void:lead-failed");
                    } else if let Outcome::Err(_) = o2 {
                        if p1 != p0 || got.map(|g| g as u64) != bits_at(&all, p0, 24) {
                            rep.violation("ladder/reader-position", format!("after a call that failed having consumed about {} bytes the reader is at bit {} (was {}), next bits {:?} (source has {:?})", bytes, p1, p0, got, bits_at(&all, p0, 24)), coords());
                        } else {
                            rep.count("ladder_large_consumption_rollback");
                        }
                    } else if let Outcome::Panic { msg, loc } = o2 {
                        rep.violation(format!("panic@{}", loc), format!("failure after {} consumed bytes: {}", bytes, msg), coords());
                    } else {
                        rep.count("ladder_void:not-failed");
                    }
                }
            }
        }
    }
}

pub const LADDER_N: usize = 32;

pub fn run(ctx: &Ctx) -> (Report, String) {
    let per_shard = ctx.n(2000, 40000);
    let splits_per_shard = ctx.n(16, 400);
    let reps = par_shards(64, ctx.threads, |s| {
        let mut rep = Report::new();
        for i in 0..per_shard {
            crate::mon::guarded(&mut rep, || crate::mon::coords("C05", ctx, s, i), |rep| case(ctx, s, i, rep));
        }
        for i in 0..splits_per_shard {
            crate::mon::guarded(&mut rep, || crate::mon::coords("C05", ctx, s, i).set("what", "split"), |rep| split_case(ctx, s, i, rep));
        }
        rep
    });
    let mut rep = Report::merge_all(reps);
    if !ctx.miri() && ctx.is_main() {
        let lr = par_shards(LADDER_N, ctx.threads, |k| {
            let mut r = Report::new();
            crate::mon::guarded(&mut r, || J::obj().set("property", "C05").set("kind", "ladder").set("k", k), |r| ladder(ctx, k, r));
            r
        });
        rep.merge(Report::merge_all(lr));
        rep.require("ladder_large_after_disposable", 6);
        rep.require("ladder_failed_modes_not_carried", 15);
        rep.require("ladder_large_consumption_rollback", 6);
    }
    if ctx.is_main() {
        let m = ctx.scale_pct;
        rep.require("continuation_steps_compared", if ctx.tier == Tier::Thorough { 1_500_000 } else { 80_000 } * m / 100);
        for k in ["depth=header", "depth=truncation", "depth=macroblock-header", "depth=block-data", "depth=prediction", "shared_reader_position_checks", "split:retried-ok", "split:inside-picture-header:failed-and-retried", "split:inside-block-data:failed-and-retried", "split_pictures", "shared_reader_position_checks_before_another_picture", "shared_reader_position_checks_after_caller_reads", "shared_reader_before_picture:standard:prediction", "shared_reader_before_picture:sorenson:prediction", "prediction_failures_ending_early", "failing_input_repeats_the_temporal_reference", "valid_but_unusual_inputs", "long_histories", "calls_repeated_after_transient_source_error"] {
            rep.require(k, 100 * m / 100);
        }
    }
    (rep, rule())
}

pub fn replay(ctx: &Ctx, j: &J, rep: &mut Report) {
    let shard = j.get("shard").and_then(|s| s.as_i64()).unwrap_or(0) as usize;
    let index = j.get("index").and_then(|s| s.as_i64()).unwrap_or(0) as u64;
    if j.get("kind").and_then(|w| w.as_str()) == Some("ladder") {
        ladder(ctx, j.get("k").and_then(|k| k.as_i64()).unwrap_or(0) as usize, rep);
        return;
    }
    if j.get("what").and_then(|w| w.as_str()) == Some("split") {
        split_case(ctx, shard, index, rep);
    } else {
        case(ctx, shard, index, rep);
    }
}
