//! C06 - picture headers are parsed field for field as H.263 clause 5.1 and the
//! Sorenson Spark layout define them. Differential monitor: header record ->
//! model encoder -> real `parser::decode_picture` -> field-level comparison, plus
//! exact bit consumption (reader position hook + sentinel bits read back).

use crate::gen::*;
use crate::json::J;
use crate::model::bits::BitWriter;
use crate::model::header::*;
use crate::model::syntax::*;
use crate::report::Report;
use crate::sut::{self, view_of, Dec, Outcome};
use crate::util::{catch, fnv64, hex, par_shards, Rng};
use crate::{Ctx, Tier};
use h263_rs::parser::{decode_picture, H263Reader};
use h263_rs::verif::types::Picture;

pub fn rule() -> String {
    "cases = header records (Sorenson and standard; single-field exhaustive sweeps, PTYPE/OPPTYPE bit-pattern sweeps, CPFMT width x height sweep, random cross-field combinations, UFEP=0 headers parsed after a UFEP=1 header, marker-bit flips) encoded by the model and parsed by the real parser; compared field by field and in consumed bit count; non-trivial = every case (each exercises at least one variable field); distinct by hash of (encoded header bits, previous header bits, scalability option)".into()
}

const SENTINEL: u32 = 0b1011_0011_1000_1111;

struct Parsed {
    pic: Option<Picture>,
    err: Option<String>,
    bits: usize,
    sentinel_ok: bool,
}

fn parse(bytes: &[u8], sorenson: bool, scal: bool, prev: Option<&Picture>) -> Result<Parsed, crate::util::Panic> {
    catch(|| {
        let mut rd = H263Reader::from_source(bytes);
        match decode_picture(&mut rd, sut::options(sorenson, scal), prev) {
            Ok(Some(p)) => {
                let bits = rd.verif_position().0;
                let s: Result<u32, _> = rd.read_bits(16);
                Parsed { pic: Some(p), err: None, bits, sentinel_ok: matches!(s, Ok(v) if v == SENTINEL) }
            }
            Ok(None) => Parsed { pic: None, err: Some("None".into()), bits: rd.verif_position().0, sentinel_ok: true },
            Err(e) => Parsed { pic: None, err: Some(sut::err_kind(&e)), bits: rd.verif_position().0, sentinel_ok: true },
        }
    })
}

fn finish(mut w: BitWriter) -> (Vec<u8>, usize) {
    let n = w.nbits;
    w.put(SENTINEL, 16);
    w.put(0, 32);
    (w.bytes, n)
}

struct Exp {
    view: HeaderView,
    nbits: usize,
}

#[allow(clippy::too_many_arguments)]
fn judge(rep0: &mut Report, flavour: &str, ctxs: &str, bytes: &[u8], exp: &Exp, got: Result<Parsed, crate::util::Panic>, coords: &dyn Fn() -> J, fp_extra: u64) {
    // In the one context with a recorded finding every mismatch class collapses into a single
    // signature (a missing 2-bit field shifts all later fields, so the first differing field varies).
    let mut tmp = Report::new();
    judge_inner(&mut tmp, flavour, ctxs, bytes, exp, got, coords, fp_extra);
    if !ctxs.is_empty() {
        let vs: Vec<_> = std::mem::take(&mut tmp.violations).into_values().collect();
        for (v, _) in vs {
            if v.sig.starts_with("panic@") {
                tmp.violation(v.sig, v.detail, v.replay);
            } else {
                tmp.violation(format!("hdr/{}{}", flavour, ctxs), format!("[{}] {}", v.sig, v.detail), v.replay);
            }
        }
    }
    rep0.merge(tmp);
}

#[allow(clippy::too_many_arguments)]
fn judge_inner(rep: &mut Report, flavour: &str, ctxs: &str, bytes: &[u8], exp: &Exp, got: Result<Parsed, crate::util::Panic>, coords: &dyn Fn() -> J, fp_extra: u64) {
    rep.evaluations += 1;
    let head = &bytes[..(exp.nbits + 7) / 8];
    match got {
        Err(p) => rep.violation(format!("panic@{}", p.loc), format!("{} header panicked: {} :: {}", flavour, p.msg, hex(head)), coords()),
        Ok(g) => match (&g.pic, &g.err) {
            (Some(pic), _) => {
                let v = view_of(pic);
                let d = exp.view.diff(&v);
                if let Some(first) = d.first() {
                    let field = first.split(':').next().unwrap_or("?");
                    rep.violation(format!("hdr/{}/{}{}", flavour, field, ctxs), format!("{} header {}: {} (all: {:?})", flavour, hex(head), first, d), coords());
                } else if g.bits != exp.nbits || !g.sentinel_ok {
                    rep.violation(format!("hdr/{}/consumed-bits{}", flavour, ctxs), format!("{} header {}: consumed {} bits, header has {} (sentinel intact: {})", flavour, hex(head), g.bits, exp.nbits, g.sentinel_ok), coords());
                } else {
                    rep.count("headers_matched");
                    rep.count(&format!("matched:{}", flavour));
                    rep.distinct.insert(fnv64(head) ^ fp_extra);
                }
            }
            (None, Some(e)) => rep.violation(format!("hdr/{}/rejected:{}{}", flavour, e, ctxs), format!("valid {} header {} rejected with {}", flavour, hex(head), e), coords()),
            _ => {}
        },
    }
}

// ------------------------------------------------------------------------------------------

fn sor_case(rep: &mut Report, h: &SorHeader, coords: &dyn Fn() -> J) {
    let mut w = BitWriter::new();
    h.encode(&mut w);
    let (bytes, n) = finish(w);
    let got = parse(&bytes, true, false, None);
    judge(rep, "sorenson", "", &bytes, &Exp { view: h.view(), nbits: n }, got, coords, 0);
}

fn std_case(rep: &mut Report, h: &StdHeader, scal: bool, prev: Option<(&StdHeader, bool)>, coords: &dyn Fn() -> J) {
    // prev: a header parsed first (with default inheritance) whose parsed form is handed on
    let mut inh = Inherited::default();
    let mut prev_pic: Option<Picture> = None;
    let mut fp = if scal { 0x5ca1 } else { 0 };
    if let Some((ph, _)) = prev {
        let mut w = BitWriter::new();
        ph.encode(&mut w, scal, &Inherited::default());
        let (pb, _) = finish(w);
        fp ^= fnv64(&pb);
        match parse(&pb, false, scal, None) {
            Ok(Parsed { pic: Some(p), .. }) => prev_pic = Some(p),
            _ => {
                rep.count("inheritance_prev_unparsed");
                return;
            }
        }
        inh = ph.inherited_after(&Inherited::default());
    }
    let mut w = BitWriter::new();
    h.encode(&mut w, scal, &inh);
    let (bytes, n) = finish(w);
    let got = parse(&bytes, false, scal, prev_pic.as_ref());
    let flavour = if h.plus.is_some() { "std-plus" } else { "std" };
    let ufep0 = h.plus.as_ref().map(|p| p.ufep == 0).unwrap_or(false);
    // context suffix isolates the one situation with a recorded finding: a header that
    // does not retransmit OPPTYPE while a custom picture clock is in force
    let ctxs = if ufep0 && inh.custom_pcf { "/inherited-custom-pcf" } else { "" };
    if prev.is_some() {
        rep.count("inheritance_pairs");
    }
    judge(rep, flavour, ctxs, &bytes, &Exp { view: h.view(scal, &inh), nbits: n }, got, coords, fp);
}

/// A chain of standard headers, each parsed with the parsed form of its predecessor as the
/// previous header; the model carries the modes in force from header to header.
fn std_chain(rep: &mut Report, hs: &[StdHeader], scal: bool, coords: &dyn Fn() -> J) {
    let mut inh = Inherited::default();
    let mut prev_pic: Option<Picture> = None;
    let mut fp = if scal { 0x5ca1c4a1 } else { 0xc4a1 };
    for (i, h) in hs.iter().enumerate() {
        let mut w = BitWriter::new();
        h.encode(&mut w, scal, &inh);
        let (bytes, n) = finish(w);
        let got = parse(&bytes, false, scal, prev_pic.as_ref());
        let flavour = if h.plus.is_some() { "std-plus" } else { "std" };
        let ufep0 = h.plus.as_ref().map(|p| p.ufep == 0).unwrap_or(false);
        let ctxs = if ufep0 && inh.custom_pcf { "/inherited-custom-pcf" } else { "" };
        let before = rep.violations.len();
        let before_n: u64 = rep.violations.values().map(|v| v.1).sum();
        fp = crate::util::fnv64_more(fp, &bytes[..(n + 7) / 8]);
        judge(rep, flavour, ctxs, &bytes, &Exp { view: h.view(scal, &inh), nbits: n }, got, coords, fp);
        let after_n: u64 = rep.violations.values().map(|v| v.1).sum();
        if rep.violations.len() != before || after_n != before_n || !ctxs.is_empty() {
            // after a mismatch (or in the context of the recorded finding) later headers prove nothing
            return;
        }
        if i > 0 {
            rep.count("chain_headers_matched_after_predecessor");
            if ufep0 {
                rep.count(&format!("chain:ufep0-at-depth-{}", i.min(4)));
                let ph = &hs[i - 1];
                if ph.plus.is_none() {
                    rep.count("chain:ufep0-after-baseline");
                    if ph.umv || ph.sac || ph.ap {
                        rep.count("chain:ufep0-after-baseline-with-modes");
                    }
                } else if ph.plus.as_ref().map(|p| p.ufep == 0).unwrap_or(false) {
                    rep.count("chain:ufep0-after-ufep0");
                    if !inh.opp_options.is_empty() {
                        rep.count("chain:ufep0-after-ufep0-with-modes");
                    }
                }
            }
        }
        inh = h.inherited_after(&inh);
        prev_pic = match parse(&bytes, false, scal, prev_pic.as_ref()) {
            Ok(Parsed { pic: Some(p), .. }) => Some(p),
            _ => return,
        };
    }
    rep.count("header_chains_completed");
}

fn base_plus(rng: &mut Rng) -> PlusHeader {
    PlusHeader {
        ufep: 1,
        src_fmt: 1 + rng.below(5) as u8,
        custom_pcf: false,
        umv: false,
        sac: false,
        ap: false,
        aic: false,
        df: false,
        ss: false,
        rps: false,
        isd: false,
        aiv: false,
        mq: false,
        ptype: rng.below(2) as u8,
        rpr: false,
        rru: false,
        rtype: false,
        par: 1 + rng.below(5) as u8,
        pwi: rng.below(512) as u16,
        phi: 1 + rng.below(288) as u16,
        epar: (1 + rng.below(255) as u8, 1 + rng.below(255) as u8),
        cpcfc: rng.byte(),
        etr: rng.below(4) as u8,
        uui_unlimited: rng.chance(1, 2),
        sss: rng.below(4) as u8,
        elnum: rng.below(16) as u8,
        rlnum: rng.below(16) as u8,
        rpsmf: rng.below(8) as u8,
        trp: if rng.chance(1, 2) { Some(rng.below(1024) as u16) } else { None },
    }
}

fn random_plus(rng: &mut Rng) -> PlusHeader {
    let mut p = base_plus(rng);
    p.src_fmt = if rng.chance(1, 2) { 6 } else { rng.below(8) as u8 };
    p.custom_pcf = rng.chance(1, 3);
    p.umv = rng.chance(1, 3);
    p.sac = rng.chance(1, 3);
    p.ap = rng.chance(1, 3);
    p.aic = rng.chance(1, 3);
    p.df = rng.chance(1, 3);
    p.ss = rng.chance(1, 3);
    p.rps = rng.chance(1, 3);
    p.isd = rng.chance(1, 3);
    p.aiv = rng.chance(1, 3);
    p.mq = rng.chance(1, 3);
    p.ptype = rng.below(8) as u8;
    p.rru = rng.chance(1, 3);
    p.rtype = rng.chance(1, 3);
    p.par = *rng.pick(&[1u8, 2, 3, 4, 5, 6, 9, 14, 15]);
    p
}

fn random_std(rng: &mut Rng, plus: bool) -> StdHeader {
    let mut h = StdHeader::baseline(rng.byte(), 1 + rng.below(6) as u8, rng.chance(1, 2), rng.below(32) as u8);
    h.split = rng.chance(1, 3);
    h.doc = rng.chance(1, 3);
    h.freeze = rng.chance(1, 3);
    h.umv = rng.chance(1, 3);
    h.sac = rng.chance(1, 3);
    h.ap = rng.chance(1, 3);
    h.pb = rng.chance(1, 4);
    h.cpm = if rng.chance(1, 2) { Some(rng.below(4) as u8) } else { None };
    h.trb = rng.below(32) as u8;
    h.dbq = rng.below(4) as u8;
    h.pei = (0..*rng.pick(&[0usize, 0, 1, 2, 4])).map(|_| rng.byte()).collect();
    if plus {
        h.plus = Some(random_plus(rng));
    }
    h
}

pub fn run(ctx: &Ctx) -> (Report, String) {
    let n_random = ctx.n(60_000, 1_000_000);
    let thorough = ctx.tier == Tier::Thorough;
    let reps = par_shards(64, ctx.threads, |s| {
        let mut rep = Report::new();
        crate::mon::guarded(&mut rep, || J::obj().set("property", "C06").set("shard", s), |rep| shard(ctx, s, n_random, thorough, rep));
        rep
    });
    let mut rep = Report::merge_all(reps);
    if ctx.is_main() {
        let m = ctx.scale_pct;
        rep.require("headers_matched", if thorough { 40_000_000 } else { 3_000_000 } * m / 100);
        for k in ["sweep:sor-custom8", "sweep:ptype-lowbits", "sweep:opptype-bits", "sweep:cpfmt", "sweep:par", "sweep:cpcfc-etr", "sweep:uui-sss", "sweep:layers", "sweep:rps", "sweep:pb", "inheritance_pairs", "marker_flips_rejected", "decoded_picture_header_checked", "decoded_picture_header_checked_in_history", "sweep:pei-ladder", "gob_probes_ok", "late_delivery_headers_matched", "header_chains_completed", "chain:ufep0-after-baseline-with-modes", "chain:ufep0-after-ufep0-with-modes", "chain:ufep0-at-depth-3", "decoded_without_restated_format", "decoded_without_restated_format_twice_in_a_row", "decoded_intra_only_predicted_picture_of_new_size", "headers_followed_by_stuffing_matched", "headers_parsed_on_a_used_decoder", "used_decoder_last_header_has_a_mode_on"] {
            rep.require(k, if k == "sweep:pei-ladder" { 20 } else { 40 });
        }
        {
            // the decoded-picture clause must actually have been observed on the extreme sizes too
            rep.require("decoded_header_large_sizes_checked", 60);
            rep.require("standard_format_pictures_checked", 10);
        }
    }
    (rep, rule())
}

fn shard(ctx: &Ctx, s: usize, n_random: u64, thorough: bool, rep: &mut Report) {
    let mut rng = Rng::new(ctx.seed ^ 0xC06, s as u64);
    let what = std::cell::RefCell::new(String::new());
    let coords = || J::obj().set("property", "C06").set("tier", ctx.tier_name()).set("seed", ctx.seed).set("stage", ctx.stage.clone()).set("scale", ctx.scale_pct).set("shard", s).set("index", 0).set("what", what.borrow().clone());
    let set = |t: &str| *what.borrow_mut() = t.to_string();

    // ---- Sorenson sweeps (shards split the 8-bit custom size square by width) ----
    set("sorenson sweeps");
    let base_sor = |rng: &mut Rng| SorHeader { version: rng.below(2) as u8, tr: rng.byte(), size: SorSize::Custom8(16, 16), ptype: rng.below(3) as u8, deblock: rng.chance(1, 2), quant: 1 + rng.below(31) as u8, pei: vec![] };
    for wq in 0..4u16 {
        let wv = (s as u16) * 4 + wq; // 64 shards x 4 = 256 widths
        let hstep = if thorough || ctx.scale_pct < 100 { 1 } else { 1 };
        let mut hv = 0u16;
        while hv < 256 {
            let mut h = base_sor(&mut rng);
            h.size = SorSize::Custom8(wv, hv);
            sor_case(rep, &h, &coords);
            rep.count("sweep:sor-custom8");
            hv += hstep;
        }
    }
    if s == 0 {
        for v in 0..32u8 {
            let mut h = base_sor(&mut rng);
            h.version = v;
            sor_case(rep, &h, &coords);
            rep.count("sweep:sor-version");
        }
        for tr in 0..=255u8 {
            let mut h = base_sor(&mut rng);
            h.tr = tr;
            sor_case(rep, &h, &coords);
            rep.count("sweep:sor-tr");
        }
        for size in [SorSize::Cif, SorSize::Qcif, SorSize::Sqcif, SorSize::S320x240, SorSize::S160x120, SorSize::Reserved7] {
            for pt in 0..4u8 {
                for db in [false, true] {
                    for q in 0..32u8 {
                        let mut h = base_sor(&mut rng);
                        h.size = size.clone();
                        h.ptype = pt;
                        h.deblock = db;
                        h.quant = q;
                        sor_case(rep, &h, &coords);
                        rep.count("sweep:sor-size-type-deblock-quant");
                    }
                }
            }
        }
        for n in 0..5usize {
            for _ in 0..50 {
                let mut h = base_sor(&mut rng);
                h.pei = (0..n).map(|_| rng.byte()).collect();
                sor_case(rep, &h, &coords);
                rep.count("sweep:sor-pei");
            }
        }
        rep.sample(8, || J::obj().set("kind", "sorenson header sweep").set("example", format!("{:?}", base_sor(&mut Rng::new(1, 1)))));
    }
    // 16-bit custom sizes: random + corners
    for _ in 0..ctx.n(200, 20000) {
        let mut h = base_sor(&mut rng);
        let pick = |rng: &mut Rng| {
            let (a, b) = (rng.below(65536) as u16, rng.below(65536) as u16);
            *rng.pick(&[0u16, 1, 255, 256, 257, 0x7fff, 0x8000, 0xffff, a, b])
        };
        h.size = SorSize::Custom16(pick(&mut rng), pick(&mut rng));
        sor_case(rep, &h, &coords);
        rep.count("sweep:sor-custom16");
    }

    // ---- extra-information byte counts around 2^8 and far beyond (boundary ladder) ----
    if s == 59 {
        set("PEI ladder");
        for n in crate::mon::ladder::PEI_LADDER {
            for _ in 0..3 {
                let mut h = base_sor(&mut rng);
                h.pei = (0..n).map(|_| rng.byte()).collect();
                sor_case(rep, &h, &coords);
                let mut h = random_std(&mut rng, false);
                h.pei = (0..n).map(|_| rng.byte()).collect();
                std_case(rep, &h, false, None, &coords);
                let mut h = random_std(&mut rng, true);
                h.pei = (0..n).map(|_| rng.byte()).collect();
                std_case(rep, &h, false, None, &coords);
                rep.count("sweep:pei-ladder");
            }
        }
    }
    // ---- standard baseline PTYPE: all 32 low-bit patterns x 6 formats x 8 flag patterns x CPM ----
    if s == 1 {
        set("baseline PTYPE sweep");
        for low in 0..32u8 {
            for fmt in 1..=6u8 {
                for flags in 0..8u8 {
                    for cpm in [None, Some(0u8), Some(3u8)] {
                        let mut h = StdHeader::baseline(rng.byte(), fmt, low & 16 != 0, 1 + rng.below(31) as u8);
                        h.umv = low & 8 != 0;
                        h.sac = low & 4 != 0;
                        h.ap = low & 2 != 0;
                        h.pb = low & 1 != 0;
                        h.split = flags & 4 != 0;
                        h.doc = flags & 2 != 0;
                        h.freeze = flags & 1 != 0;
                        h.cpm = cpm;
                        h.trb = rng.below(8) as u8;
                        h.dbq = rng.below(4) as u8;
                        std_case(rep, &h, false, None, &coords);
                        rep.count("sweep:ptype-lowbits");
                        if h.pb {
                            rep.count("sweep:pb");
                        }
                    }
                }
            }
        }
        for tr in 0..=255u8 {
            for q in [0u8, 1, 17, 31] {
                let h = StdHeader::baseline(tr, 2, tr & 1 == 1, q);
                std_case(rep, &h, false, None, &coords);
                rep.count("sweep:std-tr-quant");
            }
        }
        for trb in 0..8u8 {
            for dbq in 0..4u8 {
                let mut h = StdHeader::baseline(1, 2, true, 5);
                h.pb = true;
                h.trb = trb;
                h.dbq = dbq;
                std_case(rep, &h, false, None, &coords);
                rep.count("sweep:pb");
            }
        }
    }
    // ---- OPPTYPE: all 2^10 mode-bit patterns (+ custom PCF bit) x source formats ----
    if (2..18).contains(&s) {
        set("OPPTYPE mode-bit sweep");
        let part = s - 2; // 16 shards x 128 patterns = 2^11 (10 mode bits + PCF bit)
        for k in 0..128u32 {
            let bits = (part as u32) * 128 + k;
            for fmt in [1u8, 3, 6] {
                for scal in [false, true] {
                    let mut h = random_std(&mut rng, false);
                    let mut p = base_plus(&mut rng);
                    p.src_fmt = fmt;
                    p.custom_pcf = bits & 1024 != 0;
                    p.umv = bits & 512 != 0;
                    p.sac = bits & 256 != 0;
                    p.ap = bits & 128 != 0;
                    p.aic = bits & 64 != 0;
                    p.df = bits & 32 != 0;
                    p.ss = bits & 16 != 0;
                    p.rps = bits & 8 != 0;
                    p.isd = bits & 4 != 0;
                    p.aiv = bits & 2 != 0;
                    p.mq = bits & 1 != 0;
                    h.plus = Some(p);
                    std_case(rep, &h, scal, None, &coords);
                    rep.count("sweep:opptype-bits");
                }
            }
        }
    }
    // ---- MPPTYPE / UFEP / source format ----
    if s == 18 {
        set("MPPTYPE sweep");
        for pt in 0..8u8 {
            for rru in [false, true] {
                for rtype in [false, true] {
                    for fmt in 0..8u8 {
                        let mut h = random_std(&mut rng, false);
                        let mut p = base_plus(&mut rng);
                        p.ptype = pt;
                        p.rru = rru;
                        p.rtype = rtype;
                        p.src_fmt = fmt;
                        h.plus = Some(p);
                        std_case(rep, &h, false, None, &coords);
                        rep.count("sweep:mpptype");
                        if pt == 2 {
                            rep.count("sweep:pb");
                        }
                    }
                }
            }
        }
        // PB (improved) with TRB/DBQUANT, with and without custom PCF in the same header
        for trb in 0..32u8 {
            for dbq in 0..4u8 {
                for pcf in [false, true] {
                    let mut h = random_std(&mut rng, false);
                    h.trb = trb;
                    h.dbq = dbq;
                    let mut p = base_plus(&mut rng);
                    p.ptype = 2;
                    p.custom_pcf = pcf;
                    h.plus = Some(p);
                    std_case(rep, &h, false, None, &coords);
                    rep.count("sweep:pb");
                }
            }
        }
    }
    // ---- CPFMT: PWI x PHI ----
    if (19..51).contains(&s) {
        set("CPFMT sweep");
        let part = (s - 19) as u16; // 32 shards x 16 PWI values = 512
        for k in 0..16u16 {
            let pwi = part * 16 + k;
            let phis: Vec<u16> = if thorough { (0..=288).collect() } else { vec![0, 1, 2, 63, 64, 127, 128, 255, 256, 257, 278, 287, 288] };
            for phi in phis {
                let mut h = StdHeader::baseline(rng.byte(), 7, rng.chance(1, 2), 1 + rng.below(31) as u8);
                let mut p = base_plus(&mut rng);
                p.src_fmt = 6;
                p.pwi = pwi;
                p.phi = phi;
                h.plus = Some(p);
                std_case(rep, &h, false, None, &coords);
                rep.count("sweep:cpfmt");
            }
        }
        // and all PHI for a few PWI in quick mode
        if !thorough && part < 4 {
            for phi in 0..=288u16 {
                let mut h = StdHeader::baseline(rng.byte(), 7, false, 5);
                let mut p = base_plus(&mut rng);
                p.src_fmt = 6;
                p.pwi = [0u16, 43, 255, 511][part as usize];
                p.phi = phi;
                h.plus = Some(p);
                std_case(rep, &h, false, None, &coords);
                rep.count("sweep:cpfmt");
            }
        }
    }
    if s == 51 {
        set("PAR / EPAR / CPCFC / ETR / UUI / SSS / CPM / layers / RPS sweeps");
        for par in 1..16u8 {
            for _ in 0..20 {
                let mut h = random_std(&mut rng, false);
                let mut p = base_plus(&mut rng);
                p.src_fmt = 6;
                p.par = par;
                h.plus = Some(p);
                std_case(rep, &h, false, None, &coords);
                rep.count("sweep:par");
            }
        }
        for c in 0..=255u8 {
            for etr in 0..4u8 {
                let mut h = random_std(&mut rng, false);
                let mut p = base_plus(&mut rng);
                p.custom_pcf = true;
                p.cpcfc = c;
                p.etr = etr;
                h.plus = Some(p);
                std_case(rep, &h, false, None, &coords);
                rep.count("sweep:cpcfc-etr");
            }
        }
        for unl in [false, true] {
            for sss in 0..4u8 {
                for cpm in [None, Some(0u8), Some(1), Some(2), Some(3)] {
                    let mut h = random_std(&mut rng, false);
                    h.cpm = cpm;
                    let mut p = base_plus(&mut rng);
                    p.umv = true;
                    p.uui_unlimited = unl;
                    p.ss = true;
                    p.sss = sss;
                    h.plus = Some(p);
                    std_case(rep, &h, false, None, &coords);
                    rep.count("sweep:uui-sss");
                }
            }
        }
        for el in 0..16u8 {
            for rl in 0..16u8 {
                for ufep in [0u8, 1] {
                    let mut h = random_std(&mut rng, false);
                    let mut p = base_plus(&mut rng);
                    p.ufep = ufep;
                    p.elnum = el;
                    p.rlnum = rl;
                    h.plus = Some(p);
                    std_case(rep, &h, true, None, &coords);
                    rep.count("sweep:layers");
                }
            }
        }
        // scalability negotiated but baseline header (no PLUSPTYPE): no layer fields exist
        for _ in 0..200 {
            let h = random_std(&mut rng, false);
            std_case(rep, &h, true, None, &coords);
            rep.count("sweep:layers");
        }
        for m in 0..8u8 {
            for trp in [None, Some(0u16), Some(1), Some(511), Some(1023)] {
                let mut h = random_std(&mut rng, false);
                let mut p = base_plus(&mut rng);
                p.rps = true;
                p.rpsmf = m;
                p.trp = trp;
                h.plus = Some(p);
                std_case(rep, &h, false, None, &coords);
                rep.count("sweep:rps");
            }
        }
    }
    // ---- inheritance: B (UFEP=0) parsed with previous = A (UFEP=1), for every OPPTYPE mode bit ----
    if (52..56).contains(&s) {
        set("inheritance pairs");
        for bit in 0..11usize {
            for _ in 0..ctx.n(30, 600) {
                let mut a = random_std(&mut rng, false);
                let mut pa = base_plus(&mut rng);
                let mut flags = [false; 11];
                flags[bit] = true;
                if rng.chance(1, 2) {
                    for f in flags.iter_mut() {
                        *f = *f || rng.chance(1, 4);
                    }
                }
                pa.custom_pcf = flags[0];
                pa.umv = flags[1];
                pa.sac = flags[2];
                pa.ap = flags[3];
                pa.aic = flags[4];
                pa.df = flags[5];
                pa.ss = flags[6];
                pa.rps = flags[7];
                pa.isd = flags[8];
                pa.aiv = flags[9];
                pa.mq = flags[10];
                a.plus = Some(pa);
                let mut b = random_std(&mut rng, false);
                let mut pb = base_plus(&mut rng);
                pb.ufep = 0;
                pb.ptype = rng.below(6) as u8;
                b.plus = Some(pb);
                let scal = rng.chance(1, 4);
                std_case(rep, &b, scal, Some((&a, scal)), &coords);
                rep.count(&format!("inherit:bit{}", bit));
            }
        }
        // a baseline header after a PLUSPTYPE header, and a different-format header after another
        for _ in 0..ctx.n(100, 2000) {
            let a_plus = rng.chance(1, 2);
            let a = random_std(&mut rng, a_plus);
            let b = random_std(&mut rng, false);
            std_case(rep, &b, false, Some((&a, false)), &coords);
            rep.count("inherit:baseline-after-any");
        }
        // chains of 2-6 headers: baseline (with or without UMV/SAC/AP), PLUSPTYPE with and without
        // OPPTYPE, in any order - what is in force has to survive any number of UFEP=0 headers
        for _ in 0..ctx.n(1500, 40000) {
            let len = 2 + rng.below(5) as usize;
            let scal = rng.chance(1, 5);
            let hs: Vec<StdHeader> = (0..len)
                .map(|i| match rng.below(if i == 0 { 2 } else { 5 }) {
                    0 => random_std(&mut rng, false),
                    1 => random_std(&mut rng, true),
                    _ => {
                        let mut b = random_std(&mut rng, false);
                        let mut pb = base_plus(&mut rng);
                        pb.ufep = 0;
                        pb.ptype = rng.below(6) as u8;
                        b.plus = Some(pb);
                        b
                    }
                })
                .collect();
            std_chain(rep, &hs, scal, &coords);
        }
    }
    // ---- marker-bit flips must be rejected ----
    if s == 56 {
        set("marker flips");
        for _ in 0..ctx.n(300, 5000) {
            let mut h = random_std(&mut rng, true);
            if let Some(p) = h.plus.as_mut() {
                p.src_fmt = 6;
            }
            let mut w = BitWriter::new();
            let spans = h.encode(&mut w, false, &Inherited::default());
            let (bytes, _) = finish(w);
            for (name, start, len) in spans.iter().filter(|sp| sp.0.contains("marker")) {
                // flip each single bit of the marker, and all of them
                let mut variants: Vec<Vec<usize>> = (0..*len).map(|i| vec![start + i]).collect();
                if *len > 1 {
                    variants.push((0..*len).map(|i| start + i).collect());
                }
                for v in variants {
                    let mut b = bytes.clone();
                    for bit in &v {
                        b[bit / 8] ^= 0x80 >> (bit % 8);
                    }
                    rep.evaluations += 1;
                    match parse(&b, false, false, None) {
                        Err(p) => rep.violation(format!("panic@{}", p.loc), format!("marker flip panicked: {}", p.msg), coords()),
                        Ok(Parsed { pic: Some(_), .. }) => rep.violation(format!("marker-accepted/{}", name), format!("header with wrong {} accepted: {}", name, hex(&b[..b.len().min(24)])), coords()),
                        Ok(_) => {
                            rep.count("marker_flips_rejected");
                            rep.count(&format!("marker:{}", name));
                            rep.distinct.insert(fnv64(&b));
                        }
                    }
                }
            }
        }
    }
    // ---- late delivery: the header's bytes arrive in two instalments; the call on the first instalment fails for
    // lack of data and, repeated after the rest has been appended to the same source, reports the header exactly ----
    if s == 60 || s == 61 {
        set("late delivery");
        for i in 0..ctx.n(150, 3000) {
            let sorenson = i % 2 == 0;
            let mut w = BitWriter::new();
            let exp_view;
            if sorenson {
                let mut h = base_sor(&mut rng);
                h.size = if rng.chance(1, 2) { SorSize::Custom16(1 + rng.below(65535) as u16, 1 + rng.below(65535) as u16) } else { SorSize::Custom8(1 + rng.below(255) as u16, 1 + rng.below(255) as u16) };
                h.pei = (0..*rng.pick(&[0usize, 1, 7, 8, 9, 16])).map(|_| rng.byte()).collect();
                h.encode(&mut w);
                exp_view = h.view();
            } else {
                let plus = rng.chance(2, 3);
                let mut h = random_std(&mut rng, plus);
                h.pei = (0..*rng.pick(&[0usize, 1, 7, 8, 9])).map(|_| rng.byte()).collect();
                h.encode(&mut w, false, &Inherited::default());
                exp_view = h.view(false, &Inherited::default());
            }
            let (bytes, nbits) = finish(w);
            let hdr_bytes = (nbits + 7) / 8;
            for cut in 1..hdr_bytes {
                rep.evaluations += 1;
                let r = catch(|| {
                    let (src, data, _) = sut::CountRead::new(&bytes[..cut]);
                    let mut rd = H263Reader::from_source(src.with_chunk(1 + (cut % 3)));
                    let first = decode_picture(&mut rd, sut::options(sorenson, false), None);
                    let first_shape = match &first {
                        Ok(Some(_)) => "accepted".to_string(),
                        Ok(None) => "none".to_string(),
                        Err(e) => sut::err_kind(e),
                    };
                    data.borrow_mut().extend_from_slice(&bytes[cut..]);
                    let second = decode_picture(&mut rd, sut::options(sorenson, false), None);
                    let bits = rd.verif_position().0;
                    (first_shape, second.map(|p| p.map(|p| view_of(&p))).map_err(|e| sut::err_kind(&e)), bits)
                });
                match r {
                    Err(p) => {
                        rep.violation(format!("panic@{}", p.loc), format!("late delivery panicked: {}", p.msg), coords());
                        break;
                    }
                    Ok((first, second, bits)) => {
                        // a cut that leaves the header's last bits (inside the last byte) complete may succeed at once
                        let complete = cut * 8 >= nbits;
                        if first == "accepted" && !complete {
                            rep.violation("late-delivery/incomplete-header-accepted", format!("the first {} of {} header bytes alone were accepted as a header: {}", cut, hdr_bytes, hex(&bytes[..hdr_bytes])), coords());
                            break;
                        }
                        match second {
                            Ok(Some(v)) if first != "accepted" => {
                                let d = exp_view.diff(&v);
                                if let Some(f) = d.first() {
                                    rep.violation(format!("late-delivery/{}", f.split(':').next().unwrap_or("?")), format!("{} header delivered as {} + {} bytes: first call {}, repeated call reports {}: {}", if sorenson { "sorenson" } else { "std" }, cut, bytes.len() - cut, first, f, hex(&bytes[..hdr_bytes])), coords());
                                    break;
                                } else if bits != nbits {
                                    rep.violation("late-delivery/consumed-bits", format!("header delivered as {} + {} bytes: repeated call consumed {} bits, header has {}", cut, bytes.len() - cut, bits, nbits), coords());
                                    break;
                                }
                                rep.count("late_delivery_headers_matched");
                            }
                            Ok(Some(_)) => rep.count("late_delivery_complete_prefix"),
                            other => {
                                rep.violation("late-delivery/repeated-call-failed", format!("{} header delivered as {} + {} bytes: first call {}, repeated call {:?}: {}", if sorenson { "sorenson" } else { "std" }, cut, bytes.len() - cut, first, other.map(|_| "none"), hex(&bytes[..hdr_bytes])), coords());
                                break;
                            }
                        }
                    }
                }
            }
        }
    }
    // ---- a header is followed by macroblock data, which may begin with MCBPC stuffing: the header ends where it ends ----
    if s == 63 {
        set("header followed by stuffing");
        for i in 0..ctx.n(600, 12000) {
            let sorenson = i % 2 == 0;
            let mut w = BitWriter::new();
            let (exp_view, inter) = if sorenson {
                let mut h = base_sor(&mut rng);
                h.ptype = rng.below(3) as u8;
                h.pei = (0..*rng.pick(&[0usize, 0, 1, 3])).map(|_| rng.byte()).collect();
                h.encode(&mut w);
                (h.view(), h.ptype != 0)
            } else {
                let plus = rng.chance(1, 2);
                let mut h = random_std(&mut rng, plus);
                if let Some(pl) = h.plus.as_mut() {
                    pl.ptype = rng.below(2) as u8;
                }
                h.encode(&mut w, false, &Inherited::default());
                let inter = h.plus.as_ref().map(|p| p.ptype != 0).unwrap_or(h.inter);
                (h.view(false, &Inherited::default()), inter)
            };
            let nbits = w.nbits;
            for _ in 0..1 + rng.below(3) {
                if inter {
                    w.put(0, 1);
                }
                w.put(1, 9);
            }
            let (bytes, _) = finish(w);
            let got = parse(&bytes, sorenson, false, None);
            rep.evaluations += 1;
            match got {
                Err(p) => rep.violation(format!("panic@{}", p.loc), format!("header followed by stuffing panicked: {}", p.msg), coords()),
                Ok(Parsed { pic: Some(p), bits, .. }) => {
                    let d = exp_view.diff(&view_of(&p));
                    if let Some(f) = d.first() {
                        rep.violation(format!("hdr/{}/{}/before-stuffing", if sorenson { "sorenson" } else { "std" }, f.split(':').next().unwrap_or("?")), format!("header followed by stuffing: {} :: {}", f, hex(&bytes[..bytes.len().min(24)])), coords());
                    } else if bits != nbits {
                        rep.violation(format!("hdr/{}/consumed-bits/before-stuffing", if sorenson { "sorenson" } else { "std" }), format!("header of {} bits followed by MCBPC stuffing: the parser consumed {} bits :: {}", nbits, bits, hex(&bytes[..bytes.len().min(24)])), coords());
                    } else {
                        rep.count("headers_followed_by_stuffing_matched");
                    }
                }
                Ok(Parsed { err, .. }) => rep.violation("hdr/rejected/before-stuffing", format!("valid header followed by stuffing rejected: {:?} :: {}", err, hex(&bytes[..bytes.len().min(24)])), coords()),
            }
        }
    }
    // ---- the GOB / picture start-code probe: "a picture starts here" must leave the reader where it was ----
    if s == 59 {
        set("gob probe");
        for i in 0..ctx.n(400, 8000) {
            let mut w = BitWriter::new();
            let lead = rng.below(8) as u32; // bits before the stuffing that are consumed first
            if lead > 0 {
                w.put(rng.below(1 << lead) as u32, lead);
            }
            // zero stuffing up to the next byte boundary, then the start code
            let stuffing = (8 - (lead % 8)) % 8;
            w.put(0, stuffing);
            let kind = i % 3;
            let hdr = random_std(&mut rng, i % 2 == 0);
            match kind {
                0 => {
                    hdr.encode(&mut w, false, &Inherited::default());
                }
                1 => {
                    w.put(1, 17);
                    w.put(1 + rng.below(14) as u32, 5); // group numbers 1..14: GOB headers (not implemented)
                    w.put(rng.below(1 << 16) as u32, 16);
                }
                _ => {
                    w.put(0x5a5a5 | 0x80000, 20); // no start code within reach
                    w.put(rng.below(1 << 16) as u32, 16);
                }
            }
            let (bytes, _) = finish(w);
            rep.evaluations += 1;
            let r = catch(|| {
                let mut rd = H263Reader::from_source(&bytes[..]);
                if lead > 0 {
                    let _: u32 = rd.read_bits(lead).unwrap();
                }
                let p0 = rd.verif_position().0;
                let g = h263_rs::parser::decode_gob(&mut rd, sut::options(false, false));
                let p1 = rd.verif_position().0;
                let shape = match &g {
                    Ok(None) => "picture".to_string(),
                    Ok(Some(_)) => "gob".to_string(),
                    Err(e) => sut::err_kind(e),
                };
                // after "a picture starts here" the picture header must parse from the same reader
                let follow = if kind == 0 { Some(matches!(decode_picture(&mut rd, sut::options(false, false), None), Ok(Some(_)))) } else { None };
                (p0, p1, shape, follow)
            });
            match r {
                Err(p) => rep.violation(format!("panic@{}", p.loc), format!("GOB probe panicked: {} on {}", p.msg, hex(&bytes)), coords()),
                Ok((p0, p1, shape, follow)) => {
                    let want = ["picture", "UnimplementedDecoding", "InvalidGobHeader"][kind as usize];
                    if shape != want {
                        rep.violation(format!("gob-probe/answer/{}", want), format!("{} stuffing bits then {}: the probe answered {} on {}", stuffing, ["a picture start code", "a GOB start code", "no start code"][kind as usize], shape, hex(&bytes[..bytes.len().min(16)])), coords());
                    } else if p1 != p0 {
                        rep.violation(format!("gob-probe/position/{}", want), format!("the probe answered {} and moved the reader from bit {} to bit {} on {}", shape, p0, p1, hex(&bytes[..bytes.len().min(16)])), coords());
                    } else if follow == Some(false) {
                        rep.violation("gob-probe/picture-header-after-probe", format!("after the probe said a picture starts here the picture header did not parse: {}", hex(&bytes[..bytes.len().min(16)])), coords());
                    } else {
                        rep.count("gob_probes_ok");
                        rep.count(&format!("gob_probe:{}:stuffing={}", want, stuffing));
                        rep.distinct.insert(fnv64(&bytes));
                    }
                }
            }
        }
    }
    // ---- the five standard source formats, as PTYPE format code and as PLUSPTYPE source format: decoded size ----
    if s == 62 {
        set("standard formats decoded");
        for (code, fw, fh) in STD_FIXED {
            for plus in [false, true] {
                let cfg = crate::mon::ladder::cfg_for(&mut rng, Flavour::StdFixed, fw, fh, 0);
                let mut pic = crate::mon::ladder::large_intra(&mut rng, &cfg);
                if plus {
                    if let Hdr::Std(hd) = &mut pic.hdr {
                        let mut pl = base_plus(&mut rng);
                        pl.src_fmt = code;
                        pl.ptype = 0;
                        pl.trp = None;
                        hd.fmt = 7;
                        hd.plus = Some(pl);
                    }
                }
                let bytes = pic.encode();
                let mut dec = Dec::new(false, false);
                rep.evaluations += 1;
                match dec.decode(&bytes) {
                    Outcome::Ok => {
                        let dims = dec.planes().map(|p| (p.w, p.h));
                        let exp = match &pic.hdr {
                            Hdr::Std(hh) => hh.view(false, &Inherited::default()),
                            Hdr::Sor(hh) => hh.view(),
                        };
                        let got = dec.header_view().unwrap();
                        if dims != Some((fw, fh)) {
                            rep.violation("decoded-size/standard-format", format!("source format {} ({}x{}, {}) decodes to a picture of {:?}", code, fw, fh, if plus { "PLUSPTYPE" } else { "PTYPE" }, dims), coords());
                        } else if let Some(f) = exp.diff(&got).first() {
                            rep.violation(format!("decoded-header/standard-format/{}", f.split(':').next().unwrap_or("?")), format!("source format {} picture reports a different header: {}", code, f), coords());
                        } else {
                            rep.count("standard_format_pictures_checked");
                        }
                    }
                    Outcome::Panic { msg, loc } => rep.violation(format!("panic@{}", loc), format!("standard format {} picture panicked: {}", code, msg), coords()),
                    Outcome::Err(e) => rep.violation(format!("decoded-size/standard-format/rejected/{}", e), format!("valid intra picture in source format {} ({}) rejected with {}", code, if plus { "PLUSPTYPE" } else { "PTYPE" }, e), coords()),
                }
            }
        }
    }
    // ---- a decoded picture reports the header it was decoded from ----
    if s == 57 || s == 58 {
        set("decoded picture header");
        let big: Vec<(usize, usize)> = if s == 57 { crate::mon::ladder::boundary_dims(&mut rng, false) } else { vec![] };
        for i in 0..ctx.n(400, 20000) + big.len() as u64 {
            let (flavour, w, h) = if (i as usize) < big.len() {
                (Flavour::Sor((i % 2) as u8), big[i as usize].0, big[i as usize].1)
            } else if i % 6 == 5 {
                // sizes that have a size code of their own: the same size can then be spelled in three ways
                let (w, h) = *rng.pick(&[(352usize, 288usize), (176, 144), (128, 96), (320, 240), (160, 120)]);
                (Flavour::Sor((i % 2) as u8), w, h)
            } else {
                gen_flavour_and_size(&mut rng, 40, false)
            };
            let cfg = if (i as usize) < big.len() { crate::mon::ladder::cfg_for(&mut rng, flavour, w, h, 0) } else { gen_cfg(&mut rng, flavour, w, h) };
            let pic = if (i as usize) < big.len() { crate::mon::ladder::large_intra(&mut rng, &cfg) } else { gen_intra(&mut rng, &cfg) };
            if (i as usize) < big.len() {
                rep.count("decoded_header_large_sizes_tried");
            }
            let bytes = pic.encode();
            let mut dec = Dec::new(flavour.sorenson(), flavour.sorenson() && i % 4 == 3);
            rep.evaluations += 1;
            match dec.decode(&bytes) {
                Outcome::Ok => {}
                Outcome::Err(e) if (i as usize) >= big.len() => {
                    // a valid intra picture of ordinary size on a fresh decoder has to decode, whatever options the decoder was built with
                    rep.violation(format!("decoded-header/first-picture-rejected/{}", e), format!("{} {}x{} intra picture rejected with {} (scalability option: {})", flavour.name(), w, h, e, flavour.sorenson() && i % 4 == 3), coords());
                    continue;
                }
                o => {
                    rep.count(&format!("skipped:decode:{}", o.short()));
                    continue;
                }
            }
            let exp = match &pic.hdr {
                Hdr::Sor(hh) => hh.view(),
                Hdr::Std(hh) => hh.view(false, &Inherited::default()),
            };
            let got = dec.header_view().unwrap();
            let d = exp.diff(&got);
            let dims = dec.planes().map(|p| (p.w, p.h));
            if let Some(f) = d.first() {
                rep.violation(format!("decoded-header/{}/{}", flavour.name(), f.split(':').next().unwrap_or("?")), format!("decoded picture reports a different header: {}", f), coords());
            } else if dims != Some((w, h)) {
                rep.violation(format!("decoded-size/{}", flavour.name()), format!("header says {}x{} picture is {:?}", w, h, dims), coords());
            } else {
                rep.count("decoded_picture_header_checked");
                if (i as usize) < big.len() {
                    rep.count("decoded_header_large_sizes_checked");
                }
                rep.distinct.insert(fnv64(&bytes));
            }
            if i == 0 {
                rep.sample(8, || J::obj().set("kind", "decoded picture vs header").set("flavour", flavour.name()).set("w", w).set("h", h).set("tr", cfg.tr as u64).set("quant", cfg.quant as u64));
            }
            // ... and keeps doing so across a history on the same decoder: following pictures with
            // repeated / increasing / random temporal references, new quantisers and (at I pictures) new sizes
            let mut cfg = cfg.clone();
            let (mut w, mut h) = (w, h);
            let steps = if (i as usize) < big.len() { 0 } else { 1 + rng.below(6) };
            let mut prev_formatless = false;
            for step in 0..steps {
                cfg.tr = match rng.below(3) {
                    0 => cfg.tr,
                    1 => cfg.tr.wrapping_add(1),
                    _ => rng.byte(),
                };
                cfg.quant = 1 + rng.below(31) as u8;
                cfg.deblock_flag = rng.chance(1, 2);
                // the size may be spelled differently from picture to picture (size code of its own, 8-bit or 16-bit fields)
                cfg.prefer_fixed_size_code = rng.chance(1, 2);
                cfg.force16 = flavour.sorenson() && rng.chance(1, 3);
                let mut kind = rng.below(3);
                // a predicted / disposable picture made of intra macroblocks only may change the size as well
                // (it needs no reference); it must then report its own header and size
                let intra_only_resize = kind != 0 && flavour != Flavour::StdFixed && rng.chance(1, 5);
                // a *disposable* picture does not become the reference: the size in force for later predicted pictures stays
                let size_before = (w, h);
                let restore_size = intra_only_resize && kind == 2 && flavour.sorenson();
                let pic = if intra_only_resize {
                    let s2 = gen_size(&mut rng, 40);
                    (w, h) = if flavour.sorenson() { s2 } else { (((s2.0 + 3) / 4 * 4).clamp(4, 2048), ((s2.1 + 3) / 4 * 4).clamp(4, 1152)) };
                    cfg.w = w;
                    cfg.h = h;
                    let mut q = gen_intra(&mut rng, &cfg);
                    match &mut q.hdr {
                        Hdr::Sor(hd) => hd.ptype = kind as u8,
                        Hdr::Std(hd) => {
                            hd.inter = true;
                            if let Some(pl) = hd.plus.as_mut() {
                                pl.ptype = 1;
                            }
                        }
                    }
                    kind = 3;
                    q
                } else if kind == 0 {
                    if flavour != Flavour::StdFixed && rng.chance(1, 2) {
                        let s2 = gen_size(&mut rng, 40);
                        (w, h) = if flavour.sorenson() { s2 } else { (((s2.0 + 3) / 4 * 4).clamp(4, 2048), ((s2.1 + 3) / 4 * 4).clamp(4, 1152)) };
                        cfg.w = w;
                        cfg.h = h;
                    }
                    gen_intra(&mut rng, &cfg)
                } else {
                    let disp = flavour.sorenson() && kind == 2;
                    super::c04::vector_field_picture(&mut rng, &cfg, disp)
                };
                let mut pic = pic;
                let formatless = kind != 0 && kind != 3 && flavour == Flavour::StdPlus && rng.chance(2, 3) && drop_format(&mut pic);
                let bytes = pic.encode();
                rep.evaluations += 1;
                match dec.decode(&bytes) {
                    Outcome::Ok => {}
                    Outcome::Err(k) if formatless => {
                        rep.violation(format!("decoded-size/history/format-in-force-lost/{}", k), format!("picture {} of a history does not restate its format ({}x{} is in force) and is rejected with {}", step + 1, w, h, k), coords());
                        break;
                    }
                    Outcome::Err(k) if kind == 3 => {
                        rep.violation(format!("decoded-size/history/intra-only-picture-of-new-size-rejected/{}", k), format!("picture {} of a history is a predicted picture of intra macroblocks only that states the new size {}x{}; it is rejected with {}", step + 1, w, h, k), coords());
                        break;
                    }
                    Outcome::Err(k) if kind != 0 => {
                        // a predicted picture of the size in force, whatever way that size is spelled in its header
                        rep.violation(format!("decoded-size/history/same-size-picture-rejected/{}", k), format!("picture {} of a history states {}x{} (as {:?}), the size of its reference, and is rejected with {}", step + 1, w, h, match &pic.hdr { Hdr::Sor(hh) => format!("{:?}", hh.size), Hdr::Std(_) => "custom format".to_string() }, k), coords());
                        break;
                    }
                    o => {
                        rep.count(&format!("skipped:decode:{}", o.short()));
                        break;
                    }
                }
                if kind == 3 {
                    rep.count("decoded_intra_only_predicted_picture_of_new_size");
                }
                if formatless {
                    rep.count("decoded_without_restated_format");
                    if prev_formatless {
                        rep.count("decoded_without_restated_format_twice_in_a_row");
                    }
                }
                prev_formatless = formatless;
                let exp = match &pic.hdr {
                    Hdr::Sor(hh) => hh.view(),
                    Hdr::Std(hh) => hh.view(false, &Inherited::default()),
                };
                let got = dec.header_view().unwrap();
                let d = exp.diff(&got);
                let dims = dec.planes().map(|p| (p.w, p.h));
                if let Some(f) = d.first() {
                    rep.violation(format!("decoded-header/history/{}/{}", flavour.name(), f.split(':').next().unwrap_or("?")), format!("picture {} of a history reports a different header than the one it was decoded from: {}", step + 1, f), coords());
                    break;
                } else if dims != Some((w, h)) {
                    rep.violation(format!("decoded-size/history/{}", flavour.name()), format!("header says {}x{} picture is {:?}", w, h, dims), coords());
                    break;
                } else {
                    rep.count("decoded_picture_header_checked_in_history");
                    rep.distinct.insert(fnv64(&bytes));
                }
                if restore_size {
                    (w, h) = size_before;
                    cfg.w = w;
                    cfg.h = h;
                }
            }
            // the state's own header parser, called with no previous header on a decoder that has decoded pictures:
            // nothing of that history may leak into what it reports (a UFEP = 000 header then inherits nothing)
            if !flavour.sorenson() {
                // one more intra picture first, whose PLUSPTYPE header has a mode switched on (so that there is something to leak)
                if flavour == Flavour::StdPlus {
                    let mut last = gen_intra(&mut rng, &cfg);
                    if let Hdr::Std(hd) = &mut last.hdr {
                        if let Some(pl) = hd.plus.as_mut() {
                            pl.umv = true;
                            pl.uui_unlimited = rng.chance(1, 2);
                        }
                    }
                    if dec.decode(&last.encode()) == Outcome::Ok {
                        rep.count("used_decoder_last_header_has_a_mode_on");
                    }
                }
                let mut hh = random_std(&mut rng, false);
                let mut pl = base_plus(&mut rng);
                pl.ufep = 0;
                pl.ptype = rng.below(6) as u8;
                hh.plus = Some(pl);
                let mut wtr = BitWriter::new();
                hh.encode(&mut wtr, false, &Inherited::default());
                let (hb, nb) = finish(wtr);
                let exp = hh.view(false, &Inherited::default());
                rep.evaluations += 1;
                let r = catch(|| {
                    let mut rd = H263Reader::from_source(&hb[..]);
                    let p = dec.st.parse_picture(&mut rd, None);
                    (p.map(|o| o.map(|p| view_of(&p))).map_err(|e| sut::err_kind(&e)), rd.verif_position().0)
                });
                match r {
                    Err(p) => rep.violation(format!("panic@{}", p.loc), format!("parse_picture on a used decoder panicked: {}", p.msg), coords()),
                    Ok((Ok(Some(v)), bits)) => {
                        if let Some(f) = exp.diff(&v).first() {
                            rep.violation(format!("hdr/used-decoder/{}", f.split(':').next().unwrap_or("?")), format!("parse_picture(.., None) on a decoder that has decoded pictures reports {} for a UFEP=000 header {}", f, hex(&hb[..(nb + 7) / 8])), coords());
                        } else if bits != nb {
                            rep.violation("hdr/used-decoder/consumed-bits", format!("parse_picture(.., None) on a used decoder consumed {} bits of a {}-bit header", bits, nb), coords());
                        } else {
                            rep.count("headers_parsed_on_a_used_decoder");
                        }
                    }
                    Ok((other, _)) => rep.violation("hdr/used-decoder/rejected", format!("parse_picture(.., None) on a used decoder: {:?}", other.map(|_| "none")), coords()),
                }
            }
        }
    }
    // ---- random cross-field combinations (all shards) ----
    set("random combinations");
    for i in 0..n_random {
        match rng.below(4) {
            0 => {
                let mut h = base_sor(&mut rng);
                h.version = rng.below(32) as u8;
                h.ptype = rng.below(4) as u8;
                h.quant = rng.below(32) as u8;
                h.size = match rng.below(8) {
                    0 => SorSize::Custom8(rng.below(256) as u16, rng.below(256) as u16),
                    1 => SorSize::Custom16(rng.below(65536) as u16, rng.below(65536) as u16),
                    2 => SorSize::Cif,
                    3 => SorSize::Qcif,
                    4 => SorSize::Sqcif,
                    5 => SorSize::S320x240,
                    6 => SorSize::S160x120,
                    _ => SorSize::Reserved7,
                };
                h.pei = (0..*rng.pick(&[0usize, 0, 1, 3])).map(|_| rng.byte()).collect();
                sor_case(rep, &h, &coords);
            }
            1 => {
                let h = random_std(&mut rng, false);
                let sc = rng.chance(1, 4);
                std_case(rep, &h, sc, None, &coords);
            }
            _ => {
                let h = random_std(&mut rng, true);
                if s == 63 && i < 3 {
                    rep.sample(8, || J::obj().set("kind", "random PLUSPTYPE header").set("record", format!("{:?}", h)));
                }
                let sc = rng.chance(1, 4);
                std_case(rep, &h, sc, None, &coords);
            }
        }
        rep.count("random_combinations");
    }
}

pub fn replay_shard(ctx: &Ctx, s: usize, rep: &mut Report) {
    let thorough = ctx.tier == Tier::Thorough;
    shard(ctx, s, ctx.n(60_000, 1_000_000), thorough, rep);
}
