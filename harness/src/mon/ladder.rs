//! Boundary-value ladders: directed cases that cross the numeric thresholds a random tester of
//! modest sizes never reaches - picture dimensions around powers of two up to the 16-bit maximum,
//! macroblock counts around 2^10..2^16, chroma-sample counts around 2^16, extra-information byte
//! counts around 2^8, coded sizes around 4 KiB / 64 KiB / 1 MiB, and run lengths (pictures, errors)
//! around 2^4, 2^8 and 2^16. Every picture here is cheap to decode (mostly DC-only intra
//! macroblocks, mostly not-coded predicted macroblocks), so the ladders fit in the quick tier.

use crate::gen::*;
use crate::model::header::*;
use crate::model::syntax::*;
use crate::model::tables::MbKind;
use crate::util::Rng;

/// (width, height) pairs with one dimension on a boundary and the other small.
pub fn boundary_dims(rng: &mut Rng, thorough: bool) -> Vec<(usize, usize)> {
    let b: &[usize] = &[255, 256, 257, 511, 512, 513, 1023, 1024, 1025, 2047, 2048, 2049, 2064, 4095, 4096, 4097, 16383, 16384, 16385, 32767, 32768, 32769, 65519, 65520, 65521, 65534, 65535];
    let mut v = vec![];
    for &d in b {
        let s = 1 + rng.below(17) as usize;
        let s2 = 1 + rng.below(17) as usize;
        v.push((d, s));
        v.push((s2, d));
    }
    // height just above the H.263 custom-format maximum, with a small width
    v.push((24, 1153));
    v.push((16, 1152));
    // macroblock-count and sample-count thresholds
    v.extend([(520, 512), (512, 512), (510, 514), (514, 511), (720, 480), (1024, 1024), (1040, 1024), (1024, 1040), (2064, 1024), (2048, 2064)]);
    if thorough {
        v.extend([(4112, 2048), (4112, 4096), (65535, 33), (33, 65535)]);
    }
    v
}

pub fn std_boundary_dims() -> Vec<(usize, usize)> {
    vec![(2048, 1152), (2044, 1152), (2048, 1148), (4, 1152), (2048, 4), (1024, 1024), (1040, 1024), (2048, 16), (16, 1152), (512, 512), (516, 508)]
}

pub fn cfg_for(rng: &mut Rng, flavour: Flavour, w: usize, h: usize, pei: usize) -> PicCfg {
    PicCfg { flavour, w, h, quant: 1 + rng.below(31) as u8, tr: rng.byte(), wide_levels: false, stuffing_pct: 0, pei, deblock_flag: rng.chance(1, 2), prefer_fixed_size_code: false, force16: flavour.sorenson() && rng.chance(1, 3) }
}

/// A large intra picture that is cheap to decode: DC-only macroblocks except a few textured ones
/// (always including the first and the last macroblock).
pub fn large_intra(rng: &mut Rng, cfg: &PicCfg) -> SymPicture {
    let hdr = make_header(cfg, 0, rng);
    let n = ((cfg.w + 15) / 16) * ((cfg.h + 15) / 16);
    let lc = LevelCfg { v1: cfg.flavour == Flavour::Sor(1), wide: false };
    let mut special: Vec<usize> = vec![0, n - 1];
    for _ in 0..10 {
        special.push(rng.below(n as u64) as usize);
    }
    for t in [1023usize, 1024, 2047, 2048, 2049, 4095, 4096, 8191, 8192, 16383, 16384, 32767, 32768] {
        if t < n {
            special.push(t);
        }
    }
    let mut mbs = Vec::with_capacity(n);
    for i in 0..n {
        let textured = special.contains(&i);
        let blocks: [SymBlock; 6] = std::array::from_fn(|_| {
            if textured {
                let shape = *rng.pick(&SHAPES);
                gen_block(rng, true, shape, lc)
            } else {
                let dc = 1 + (rng.next() % 254) as u8;
                SymBlock { intradc: Some(if dc == 128 { 129 } else { dc }), events: vec![] }
            }
        });
        mbs.push(SymMb::Coded { kind: if textured && rng.chance(1, 3) { MbKind::IntraQ } else { MbKind::Intra }, dquant: *rng.pick(&[-2i8, -1, 1, 2]), mvd: [[0; 2]; 4], blocks });
    }
    SymPicture { hdr, w: cfg.w, h: cfg.h, mbs, stuffing: vec![] }
}

/// A large predicted picture: not-coded macroblocks except a few inter ones (first, last, around
/// the power-of-two macroblock indices); optionally ends early after `truncate` macroblocks.
/// Every macroblock inter (one or four vectors, random differentials over the whole range, no
/// residual): exercises vector prediction at every macroblock address of a large / wide picture.
pub fn dense_inter(rng: &mut Rng, cfg: &PicCfg) -> SymPicture {
    let hdr = make_header(cfg, 1, rng);
    let n = ((cfg.w + 15) / 16) * ((cfg.h + 15) / 16);
    let mbs = (0..n)
        .map(|_| {
            let four = rng.chance(1, 3);
            let big = rng.chance(1, 4);
            let mvd: [[i32; 2]; 4] = std::array::from_fn(|_| if big { [rng.range(-32, 31) as i32, rng.range(-32, 31) as i32] } else { [rng.range(-6, 6) as i32, rng.range(-6, 6) as i32] });
            SymMb::Coded { kind: if four { MbKind::Inter4V } else { MbKind::Inter }, dquant: 1, mvd, blocks: std::array::from_fn(|_| SymBlock::default()) }
        })
        .collect();
    SymPicture { hdr, w: cfg.w, h: cfg.h, mbs, stuffing: vec![] }
}

pub fn large_inter(rng: &mut Rng, cfg: &PicCfg, disposable: bool, truncate: Option<usize>) -> SymPicture {
    let hdr = make_header(cfg, if disposable { 2 } else { 1 }, rng);
    let n = ((cfg.w + 15) / 16) * ((cfg.h + 15) / 16);
    let mut special: Vec<usize> = vec![0, n - 1];
    for _ in 0..10 {
        special.push(rng.below(n as u64) as usize);
    }
    for t in [1023usize, 1024, 2047, 2048, 2049, 4095, 4096, 4097, 8191, 8192, 8193, 16383, 16384, 32767, 32768] {
        if t < n {
            special.push(t);
        }
    }
    let mut mbs = Vec::with_capacity(n);
    for i in 0..n {
        if special.contains(&i) {
            let four = rng.chance(1, 3);
            let mvd: [[i32; 2]; 4] = std::array::from_fn(|_| [rng.range(-9, 9) as i32, rng.range(-9, 9) as i32]);
            mbs.push(SymMb::Coded { kind: if four { MbKind::Inter4V } else { MbKind::Inter }, dquant: 1, mvd, blocks: std::array::from_fn(|_| SymBlock::default()) });
        } else {
            mbs.push(SymMb::NotCoded);
        }
    }
    if let Some(t) = truncate {
        mbs.truncate(t.min(n));
    }
    SymPicture { hdr, w: cfg.w, h: cfg.h, mbs, stuffing: vec![] }
}

/// Extra-information byte counts around 2^8 and beyond.
pub const PEI_LADDER: [usize; 9] = [254, 255, 256, 257, 511, 512, 513, 1000, 70000];

/// An intra 32x32 picture padded with MCBPC stuffing codes so that its coded size is about `bytes`.
pub fn stuffed_picture(rng: &mut Rng, flavour: Flavour, bytes: usize, ptype_inter: bool) -> SymPicture {
    let cfg = cfg_for(rng, flavour, 32, 32, 0);
    let mut p = if ptype_inter { large_inter(rng, &cfg, false, None) } else { large_intra(rng, &cfg) };
    // each stuffing code is 9 bits (10 in predicted pictures); u8 counts per macroblock, so spread them
    let per_code = if ptype_inter { 10 } else { 9 };
    let total = bytes * 8 / per_code;
    let nmb = p.mbs.len();
    let _ = nmb;
    p.stuffing = vec![0; p.mbs.len()];
    // SymPicture keeps u8 counts: use a dedicated raw macroblock in front carrying the bulk
    let mut groups: Vec<(u32, u32)> = Vec::with_capacity(total);
    for _ in 0..total {
        if ptype_inter {
            groups.push((0, 1));
        }
        groups.push((1, 9));
    }
    p.mbs.insert(0, SymMb::Raw(groups));
    p.stuffing.insert(0, 0);
    p
}

/// Model-side view of a picture that starts with a `Raw` stuffing macroblock: the same picture without it.
pub fn without_raw(p: &SymPicture) -> SymPicture {
    let mut q = p.clone();
    q.mbs.retain(|m| !matches!(m, SymMb::Raw(_)));
    q.stuffing = vec![];
    q
}

/// Long DQUANT runs towards either clamp (a clamp dropped at one end lets the quantiser walk out of range).
pub fn dquant_run(rng: &mut Rng, flavour: Flavour, up: bool, n_mb_side: usize) -> SymPicture {
    let mut cfg = cfg_for(rng, flavour, 16 * n_mb_side, 16 * n_mb_side, 0);
    cfg.quant = if up { 31 } else { 1 };
    let hdr = make_header(&cfg, 0, rng);
    let n = n_mb_side * n_mb_side;
    let mbs = (0..n)
        .map(|_| SymMb::Coded { kind: MbKind::IntraQ, dquant: if up { 2 } else { -2 }, mvd: [[0; 2]; 4], blocks: std::array::from_fn(|_| SymBlock { intradc: Some(1 + (rng.next() % 120) as u8), events: vec![Ev { run: 0, level: 1 + rng.below(3) as i32, esc: Esc::Esc8 }] }) })
        .collect();
    SymPicture { hdr, w: cfg.w, h: cfg.h, mbs, stuffing: vec![] }
}

/// A standard-mode PLUSPTYPE header that switches optional modes on, for a picture of the given
/// custom size; used to check that a *failed* picture does not leave its modes behind.
pub fn plus_header_with_modes(rng: &mut Rng, w: usize, h: usize, inter: bool) -> StdHeader {
    let mut hd = StdHeader::baseline(rng.byte(), 7, inter, 1 + rng.below(31) as u8);
    hd.plus = Some(PlusHeader {
        ufep: 1,
        src_fmt: 6,
        custom_pcf: false,
        umv: rng.chance(1, 2),
        sac: false,
        ap: false,
        aic: rng.chance(1, 4),
        df: rng.chance(1, 4),
        ss: false,
        rps: false,
        isd: false,
        aiv: rng.chance(1, 4),
        mq: rng.chance(1, 2),
        ptype: inter as u8,
        rpr: false,
        rru: false,
        rtype: rng.chance(1, 2),
        par: 2,
        pwi: (w / 4 - 1) as u16,
        phi: (h / 4) as u16,
        epar: (1, 1),
        cpcfc: 0,
        etr: 0,
        uui_unlimited: rng.chance(1, 2),
        sss: 0,
        elnum: 0,
        rlnum: 0,
        rpsmf: 4,
        trp: None,
    });
    hd
}
