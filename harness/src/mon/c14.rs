//! C14 - the bit reader delivers each bit once, in order, under any mix of operations.
//! History + sequential model: operation trees over the public `H263Reader` API are run
//! in lockstep against a plain bit-vector model; every returned value, error and (via the
//! position hook) the absolute bit position are compared after every operation.

use crate::json::J;
use crate::model::bits::bits_at;
use crate::report::Report;
use crate::util::{catch, fnv64, hex, par_shards, Rng};
use crate::{Ctx, Tier};
use h263_rs::parser::H263Reader;
use h263_rs::verif::tables::Entry;
use h263_rs::Error;
use std::cell::RefCell;
use std::io::Read;
use std::rc::Rc;

pub fn rule() -> String {
    "cases = (source byte string delivered in chunks, start phase, operation tree history over peek/read/signed/skip/read_u8/read_vlc/recognize_start_code/commit/transaction/union/lookahead, optional growth of the source); bounded-exhaustive over all 1- and 2-operation sequences from a fixed alphabet x a family of short sources x phases 0..7, plus random histories of 20-200 operations with trees up to depth 3; distinct by hash of (source, history); non-trivial = history contains at least one consuming operation that succeeded".into()
}

// ------------------------------------------------------------------------------------------
// operations
// ------------------------------------------------------------------------------------------

#[derive(Clone, Copy, Debug, PartialEq, Eq, Hash)]
enum Ty {
    U8,
    U16,
    U32,
    U64,
    I16,
    I32,
    I64,
    /// the widest type the reader's bound admits: fields of up to 128 bits
    U128,
}

impl Ty {
    fn width(self) -> u32 {
        match self {
            Ty::U8 => 8,
            Ty::U16 | Ty::I16 => 16,
            Ty::U32 | Ty::I32 => 32,
            Ty::U64 | Ty::I64 => 64,
            Ty::U128 => 128,
        }
    }
}

#[derive(Clone, Copy, Debug, PartialEq, Eq, Hash)]
enum End {
    Ok,
    None,
    Err,
}

#[derive(Clone, Debug, PartialEq, Eq, Hash)]
enum Op {
    Peek(Ty, u32),
    Read(Ty, u32),
    PeekS(Ty, u32),
    ReadS(Ty, u32),
    Skip(u32),
    ReadU8,
    /// unrestricted-vector code (Table D.3); only the consumption rules are judged, not the value
    ReadUmv,
    Vlc(usize),
    StartCode(bool),
    Commit,
    Tx(Vec<Op>, End),
    Union(Vec<Op>, End),
    Look(Vec<Op>, End),
    Grow(Vec<u8>),
}

fn op_kind(op: &Op) -> &'static str {
    match op {
        Op::Peek(..) => "peek",
        Op::Read(..) => "read",
        Op::PeekS(..) => "peek_signed",
        Op::ReadS(..) => "read_signed",
        Op::Skip(_) => "skip",
        Op::ReadU8 => "read_u8",
        Op::ReadUmv => "read_umv",
        Op::Vlc(_) => "read_vlc",
        Op::StartCode(false) => "start_code",
        Op::StartCode(true) => "start_code_in_error",
        Op::Commit => "commit",
        Op::Tx(..) => "transaction",
        Op::Union(..) => "transaction_union",
        Op::Look(..) => "lookahead",
        Op::Grow(_) => "grow",
    }
}

// ------------------------------------------------------------------------------------------
// VLC tables: real `Entry` tables plus the model's (code, len) -> leaf index lists
// ------------------------------------------------------------------------------------------

struct VTable {
    name: &'static str,
    real: Vec<Entry<u32>>,
    /// (code, length, leaf id) derived by *my* traversal of the tree
    codes: Vec<(u64, u32, u32)>,
    /// the table contains an out-of-range index somewhere (reported as an internal error when reached)
    broken_prefixes: Vec<(u64, u32)>,
}

fn relabel<T>(t: &[Entry<T>]) -> Vec<Entry<u32>> {
    t.iter()
        .enumerate()
        .map(|(i, e)| match e {
            Entry::End(_) => Entry::End(i as u32),
            Entry::Fork(a, b) => Entry::Fork(*a, *b),
        })
        .collect()
}

fn derive_codes(t: &[Entry<u32>]) -> (Vec<(u64, u32, u32)>, Vec<(u64, u32)>) {
    let mut out = vec![];
    let mut broken = vec![];
    let mut stack = vec![(0usize, 0u64, 0u32)];
    while let Some((idx, code, len)) = stack.pop() {
        if len > 40 {
            continue;
        }
        match t.get(idx) {
            None => broken.push((code, len)),
            Some(Entry::End(v)) => out.push((code, len, *v)),
            Some(Entry::Fork(z, o)) => {
                stack.push((*z, code << 1, len + 1));
                stack.push((*o, (code << 1) | 1, len + 1));
            }
        }
    }
    (out, broken)
}

fn tables() -> Vec<VTable> {
    use h263_rs::verif::tables as rt;
    let mut v = vec![];
    let mut add = |name: &'static str, real: Vec<Entry<u32>>| {
        let (codes, broken_prefixes) = derive_codes(&real);
        v.push(VTable { name, real, codes, broken_prefixes });
    };
    add("mcbpc_i", relabel(rt::mcbpc_i_table()));
    add("mcbpc_p", relabel(rt::mcbpc_p_table()));
    add("cbpy", relabel(rt::cbpy_table()));
    add("mvd", relabel(rt::mvd_table()));
    add("tcoef", relabel(&rt::tcoef_table()[..]));
    // synthetic: single leaf (zero-length code), a 3-leaf tree, and one with a dangling index
    add("syn-leaf", vec![Entry::End(7)]);
    add("syn-3", vec![Entry::Fork(1, 2), Entry::End(10), Entry::Fork(3, 4), Entry::End(11), Entry::End(12)]);
    add("syn-dangling", vec![Entry::Fork(1, 9), Entry::End(1)]);
    // tables whose links form a directed acyclic graph with shared entries (what read_vlc documents as
    // valid): codes may be as long as the table has entries, less one
    add("syn-dag-chain", vec![Entry::Fork(1, 1), Entry::Fork(2, 2), Entry::Fork(3, 3), Entry::Fork(4, 4), Entry::Fork(5, 5), Entry::Fork(6, 6), Entry::End(60)]);
    add("syn-dag-ladder", vec![Entry::Fork(1, 2), Entry::Fork(3, 2), Entry::Fork(3, 4), Entry::Fork(5, 4), Entry::Fork(5, 6), Entry::End(50), Entry::Fork(7, 5), Entry::End(51)]);
    v
}

// ------------------------------------------------------------------------------------------
// growing, chunked source
// ------------------------------------------------------------------------------------------

struct Src {
    data: Rc<RefCell<Vec<u8>>>,
    delivered: Rc<RefCell<usize>>,
    /// bytes per read call; values >= 1000 additionally ask for an `Interrupted` answer on every
    /// (chunk / 1000)-th call (the transient condition readers are expected to retry)
    chunk: usize,
    calls: usize,
}

impl Read for Src {
    fn read(&mut self, buf: &mut [u8]) -> std::io::Result<usize> {
        self.calls += 1;
        let (every, chunk) = (self.chunk / 1000, self.chunk % 1000);
        if every > 0 && self.calls % every == 0 {
            return Err(std::io::Error::new(std::io::ErrorKind::Interrupted, "interrupted"));
        }
        let d = self.data.borrow();
        let mut pos = self.delivered.borrow_mut();
        let n = buf.len().min(chunk.max(1)).min(d.len() - *pos);
        buf[..n].copy_from_slice(&d[*pos..*pos + n]);
        *pos += n;
        Ok(n)
    }
}

// ------------------------------------------------------------------------------------------
// lockstep execution
// ------------------------------------------------------------------------------------------

struct Lock {
    data: Rc<RefCell<Vec<u8>>>,
    delivered: Rc<RefCell<usize>>,
    /// model position (absolute bit index)
    p: usize,
    mismatch: Option<(String, String)>,
    consumed_ok: bool,
    counts: Vec<(&'static str, &'static str)>,
    phases: [u64; 8],
    straddle: u64,
    /// reads and peeks of 65..128 bits into a 128-bit destination
    wide: u64,
    sc: Vec<(usize, &'static str)>,
}

#[derive(Debug, PartialEq, Clone)]
enum Val {
    U(u64),
    /// a 128-bit value as (high, low) halves
    W(u64, u64),
    Unit,
    Sc(Option<u32>),
    Leaf(u32),
}

#[derive(Debug, PartialEq, Clone)]
enum MRes {
    Ok(Val),
    Eof,
    Internal,
    /// any of several outcomes is acceptable (start-code oracle); checked separately
    Custom,
}

fn err_class(e: &Error) -> &'static str {
    match e {
        Error::UnhandledIoError(ioe) if ioe.kind() == std::io::ErrorKind::UnexpectedEof => "eof",
        Error::InternalDecoderError => "internal",
        Error::InvalidBitstream => "closure-err",
        _ => "other",
    }
}

fn is_start(data: &[u8], at: usize) -> Option<bool> {
    bits_at(data, at, 17).map(|v| v == 1)
}

impl Lock {
    fn fail(&mut self, sig: &str, detail: String) {
        if self.mismatch.is_none() {
            self.mismatch = Some((sig.to_string(), detail));
        }
    }

    fn check_pos<R: Read>(&mut self, rd: &H263Reader<R>, after: &str) {
        let (bits_read, buffered) = rd.verif_position();
        let abs = (*self.delivered.borrow() - buffered) * 8 + bits_read;
        if abs != self.p {
            self.fail("position", format!("after {}: reader at absolute bit {} (delivered {} bytes, {} buffered, {} bits read), model at {}", after, abs, *self.delivered.borrow(), buffered, bits_read, self.p));
        }
    }

    fn model_fixed(&self, ty: Ty, n: u32, signed: bool) -> MRes {
        if n > ty.width() {
            return MRes::Internal;
        }
        if ty == Ty::U128 {
            let d = self.data.borrow();
            let (nh, nl) = (n.saturating_sub(64), n.min(64));
            return match (bits_at(&d, self.p, nh), bits_at(&d, self.p + nh as usize, nl)) {
                (Some(h), Some(l)) => MRes::Ok(Val::W(h, l)),
                _ => MRes::Eof,
            };
        }
        if n == 0 {
            return MRes::Ok(Val::U(0));
        }
        let d = self.data.borrow();
        match bits_at(&d, self.p, n) {
            None => MRes::Eof,
            Some(v) => {
                let v = if signed && (v >> (n - 1)) & 1 == 1 {
                    // two's-complement sign extension to the width of the type
                    let w = ty.width();
                    let ext = if n >= 64 { 0 } else { !0u64 << n };
                    let full = v | ext;
                    if w == 64 {
                        full
                    } else {
                        full & ((1u64 << w) - 1)
                    }
                } else {
                    v
                };
                MRes::Ok(Val::U(v))
            }
        }
    }

    /// Returns Err(()) if the operation failed (closure must exit early).
    fn step<R: Read>(&mut self, op: &Op, rd: &mut H263Reader<R>, tabs: &[VTable], depth: usize) -> Result<(), Error> {
        if self.mismatch.is_some() {
            return Err(Error::InvalidBitstream);
        }
        self.phases[self.p % 8] += 1;
        macro_rules! fixed {
            ($ty:expr, $n:expr, $signed:expr, $consume:expr, $call:ident) => {{
                let exp = self.model_fixed($ty, $n, $signed);
                let got: Result<Val, Error> = match $ty {
                    Ty::U8 => rd.$call::<u8>($n).map(|v| Val::U(v as u64)),
                    Ty::U16 => rd.$call::<u16>($n).map(|v| Val::U(v as u64)),
                    Ty::U32 => rd.$call::<u32>($n).map(|v| Val::U(v as u64)),
                    Ty::U64 => rd.$call::<u64>($n).map(Val::U),
                    Ty::I16 => rd.$call::<i16>($n).map(|v| Val::U(v as u16 as u64)),
                    Ty::I32 => rd.$call::<i32>($n).map(|v| Val::U(v as u32 as u64)),
                    Ty::I64 => rd.$call::<i64>($n).map(|v| Val::U(v as u64)),
                    Ty::U128 => rd.$call::<u128>($n).map(|v| Val::W((v >> 64) as u64, v as u64)),
                };
                if $ty == Ty::U128 && $n > 64 && $n <= 128 {
                    self.wide += 1;
                }
                let left = self.data.borrow().len() * 8 - self.p;
                if ($n as usize) > left && $n <= $ty.width() {
                    self.straddle += 1;
                }
                self.judge(op, exp, got, if $consume { $n as usize } else { 0 })
            }};
        }
        let r = match op {
            Op::Peek(ty, n) => fixed!(*ty, *n, false, false, peek_bits),
            Op::Read(ty, n) => fixed!(*ty, *n, false, true, read_bits),
            Op::PeekS(ty, n) => fixed!(*ty, *n, true, false, peek_signed_bits),
            Op::ReadS(ty, n) => fixed!(*ty, *n, true, true, read_signed_bits),
            Op::ReadU8 => {
                let exp = self.model_fixed(Ty::U8, 8, false);
                let got = rd.read_u8().map(|v| Val::U(v as u64));
                self.judge(op, exp, got, 8)
            }
            Op::ReadUmv => {
                // a failed read consumes nothing; a successful one consumes at least one bit, all inside the data
                let got = rd.read_umv();
                let (bits_read, buffered) = rd.verif_position();
                let abs = (*self.delivered.borrow() - buffered) * 8 + bits_read;
                match got {
                    Err(e) => {
                        // like read_vlc, this composite read is not atomic by itself: it is only issued inside a
                        // transaction or look-ahead, whose rollback is what the model checks
                        self.counts.push(("read_umv", "err"));
                        Err(e)
                    }
                    Ok(_) => {
                        let end = self.data.borrow().len() * 8;
                        if abs <= self.p || abs > end {
                            self.fail("position/read_umv", format!("read_umv succeeded at bit {} and left the reader at bit {} (data ends at {})", self.p, abs, end));
                        }
                        self.p = abs;
                        self.consumed_ok = true;
                        self.counts.push(("read_umv", "ok"));
                        Ok(())
                    }
                }
            }
            Op::Skip(n) => {
                let avail = self.data.borrow().len() * 8 - self.p;
                let exp = if *n as usize <= avail { MRes::Ok(Val::Unit) } else { MRes::Eof };
                let got = rd.skip_bits(*n).map(|_| Val::Unit);
                self.judge(op, exp, got, *n as usize)
            }
            Op::Vlc(t) => {
                let tab = &tabs[*t];
                let d = self.data.borrow().clone();
                let mut exp = MRes::Eof;
                let mut used = 0usize;
                for (code, len, leaf) in &tab.codes {
                    if bits_at(&d, self.p, *len) == Some(*code) {
                        exp = MRes::Ok(Val::Leaf(*leaf));
                        used = *len as usize;
                    }
                }
                for (code, len) in &tab.broken_prefixes {
                    if bits_at(&d, self.p, *len) == Some(*code) {
                        exp = MRes::Internal;
                    }
                }
                let got = rd.read_vlc(&tab.real[..]).map(Val::Leaf);
                let failed = got.is_err();
                if !failed && tab.name.starts_with("syn-dag") {
                    self.counts.push(("vlc_table", if tab.name == "syn-dag-chain" { "syn-dag-chain" } else { "syn-dag-ladder" }));
                }
                let r = self.judge(op, exp, got, used);
                if failed {
                    // position after a failed read_vlc is documented as undefined
                    return r;
                }
                r
            }
            Op::StartCode(in_error) => {
                let got = rd.recognize_start_code(*in_error);
                let d = self.data.borrow().clone();
                let p = self.p;
                let verdict: Result<&'static str, String> = match &got {
                    Ok(Some(s)) => {
                        let s = *s as usize;
                        if is_start(&d, p + s) != Some(true) {
                            Err(format!("reported a start code {} bits ahead but none begins there", s))
                        } else if (0..s).any(|k| is_start(&d, p + k) == Some(true)) {
                            Err(format!("reported a start code {} bits ahead but a nearer one exists", s))
                        } else if !*in_error && s > 8 {
                            Err(format!("looked {} bits ahead (more than one byte of stuffing)", s))
                        } else {
                            Ok("found")
                        }
                    }
                    Ok(None) => {
                        let r = (8 - p % 8) % 8;
                        if *in_error {
                            Err("returned None in resynchronisation mode".into())
                        } else if (0..=r).any(|k| is_start(&d, p + k) == Some(true)) {
                            Err(format!("returned None although a start code begins within the {} realignment bits", r))
                        } else {
                            Ok("none")
                        }
                    }
                    Err(e) if err_class(e) == "eof" => {
                        // acceptable only if the search ran out of data before it could decide:
                        // scanning offsets in order, the first undecidable offset comes before any start code
                        let lim = if *in_error { usize::MAX } else { 8 };
                        let mut k = 0usize;
                        loop {
                            match is_start(&d, p + k) {
                                None => break Ok("eof"),
                                Some(true) => break Err(format!("end-of-data reported although a start code begins {} bits ahead", k)),
                                Some(false) => {
                                    if k >= lim {
                                        break Err("end-of-data reported although the whole search window is available and holds no start code".to_string());
                                    }
                                    k += 1;
                                }
                            }
                        }
                    }
                    Err(e) => Err(format!("unexpected error {:?}", e)),
                };
                match verdict {
                    Ok(k) => {
                        self.sc.push((p % 8, k));
                        self.counts.push((op_kind(op), k));
                    }
                    Err(m) => self.fail("start-code", format!("recognize_start_code({}) at bit {} of {}: {}", in_error, p, hex(&d), m)),
                }
                let _ = MRes::Custom;
                Ok(())
            }
            Op::Commit => {
                rd.commit();
                self.counts.push(("commit", "ok"));
                Ok(())
            }
            Op::Grow(b) => {
                self.data.borrow_mut().extend_from_slice(b);
                self.counts.push(("grow", "ok"));
                Ok(())
            }
            Op::Tx(inner, end) | Op::Union(inner, end) | Op::Look(inner, end) => {
                let saved = self.p;
                let end = *end;
                let body = |r: &mut H263Reader<R>, me: &mut Lock| -> Result<Option<u8>, Error> {
                    for o in inner {
                        me.step(o, r, tabs, depth + 1)?;
                    }
                    match end {
                        End::Ok => Ok(Some(1)),
                        End::None => Ok(None),
                        End::Err => Err(Error::InvalidBitstream),
                    }
                };
                let me: *mut Lock = self;
                // SAFETY-free alternative: we pass `self` through a RefCell-less pointer only within
                // this call frame; the closure is FnOnce and runs synchronously inside the reader method.
                let res: Result<Option<u8>, Error> = match op {
                    Op::Tx(..) => rd.with_transaction(|r| body(r, unsafe { &mut *me })),
                    Op::Union(..) => rd.with_transaction_union(|r| body(r, unsafe { &mut *me })),
                    _ => rd.with_lookahead(|r| body(r, unsafe { &mut *me })),
                };
                let restored = match (op, &res) {
                    (Op::Look(..), _) => true,
                    (_, Err(_)) => true,
                    (Op::Union(..), Ok(None)) => true,
                    _ => false,
                };
                if restored {
                    self.p = saved;
                }
                let k = match &res {
                    Ok(Some(_)) => "ok",
                    Ok(None) => "none",
                    Err(_) => "err",
                };
                self.counts.push((op_kind(op), k));
                // closures that failed because of an inner *model-expected* failure are fine; what matters is the position
                if self.mismatch.is_none() {
                    self.check_pos(rd, &format!("{} ending {:?} -> {}", op_kind(op), end, k));
                }
                return match res {
                    Ok(_) => Ok(()),
                    Err(e) => Err(e),
                };
            }
        };
        if self.mismatch.is_none() && !matches!(op, Op::Vlc(_) | Op::ReadUmv if r.is_err()) {
            self.check_pos(rd, &format!("{:?}", op));
        }
        r
    }

    fn judge(&mut self, op: &Op, exp: MRes, got: Result<Val, Error>, consume: usize) -> Result<(), Error> {
        let kind = op_kind(op);
        match (&exp, &got) {
            (MRes::Ok(e), Ok(g)) if e == g => {
                self.p += consume;
                if consume > 0 {
                    self.consumed_ok = true;
                }
                self.counts.push((kind, "ok"));
                Ok(())
            }
            (MRes::Eof, Err(e)) if err_class(e) == "eof" => {
                self.counts.push((kind, "eof"));
                got.map(|_| ())
            }
            // over-wide reads / malformed tables: the statement only requires that nothing is consumed,
            // not a particular error value
            (MRes::Internal, Err(_)) => {
                self.counts.push((kind, "width-error"));
                got.map(|_| ())
            }
            _ => {
                let d = self.data.borrow().clone();
                self.fail(&format!("value/{}", kind), format!("{:?} at bit {} of source {}: model {:?}, reader {:?}", op, self.p, hex(&d), exp, got.as_ref().map_err(|e| format!("{:?}", e))));
                Err(Error::InvalidBitstream)
            }
        }
    }
}

fn run_history(src: &[u8], chunk: usize, phase: u32, ops: &[Op], tabs: &[VTable]) -> (Lock, Option<crate::util::Panic>) {
    let data = Rc::new(RefCell::new(src.to_vec()));
    let delivered = Rc::new(RefCell::new(0usize));
    let mut lock = Lock { data: data.clone(), delivered: delivered.clone(), p: 0, mismatch: None, consumed_ok: false, counts: vec![], phases: [0; 8], straddle: 0, wide: 0, sc: vec![] };
    let r = catch(|| {
        let mut rd = H263Reader::from_source(Src { data, delivered, chunk, calls: 0 });
        if phase > 0 {
            let _ = lock.step(&Op::Skip(phase), &mut rd, tabs, 0);
        }
        for op in ops {
            let _ = lock.step(op, &mut rd, tabs, 0);
            if lock.mismatch.is_some() {
                break;
            }
        }
    });
    (lock, r.err())
}

// ------------------------------------------------------------------------------------------
// generators
// ------------------------------------------------------------------------------------------

fn alphabet(tabs: &[VTable]) -> Vec<Op> {
    let _ = tabs;
    vec![
        Op::Peek(Ty::U8, 0),
        Op::Peek(Ty::U8, 1),
        Op::Peek(Ty::U8, 8),
        Op::Peek(Ty::U8, 9),
        Op::Read(Ty::U8, 1),
        Op::Read(Ty::U8, 3),
        Op::Read(Ty::U8, 8),
        Op::Read(Ty::U16, 9),
        Op::Read(Ty::U16, 16),
        Op::Read(Ty::U16, 17),
        Op::Read(Ty::U32, 17),
        Op::Read(Ty::U32, 32),
        Op::Read(Ty::U64, 33),
        Op::Read(Ty::U64, 0),
        Op::PeekS(Ty::I16, 1),
        Op::PeekS(Ty::I16, 5),
        Op::ReadS(Ty::I16, 2),
        Op::ReadS(Ty::I16, 11),
        Op::ReadS(Ty::I16, 16),
        Op::ReadS(Ty::I32, 7),
        Op::ReadS(Ty::I32, 32),
        Op::ReadS(Ty::U8, 3),
        Op::ReadS(Ty::U8, 8),
        Op::ReadS(Ty::I16, 0),
        Op::Skip(1),
        Op::Skip(7),
        Op::Skip(8),
        Op::Skip(17),
        Op::Tx(vec![Op::ReadUmv], End::Ok),
        Op::Skip(u32::MAX),
        Op::Skip(u32::MAX - 7),
        Op::ReadU8,
        Op::StartCode(false),
        Op::StartCode(true),
        Op::Commit,
        Op::Look(vec![Op::Vlc(0)], End::Ok),
        Op::Tx(vec![Op::Vlc(4)], End::Ok),
        Op::Tx(vec![Op::Read(Ty::U8, 8)], End::Err),
        Op::Tx(vec![Op::Read(Ty::U16, 16)], End::Ok),
        Op::Union(vec![Op::Skip(3)], End::None),
        Op::Look(vec![Op::Read(Ty::U32, 20)], End::Ok),
        Op::Tx(vec![Op::Skip(9), Op::Tx(vec![Op::Read(Ty::U8, 5)], End::Err)], End::Ok),
        Op::Tx(vec![Op::Read(Ty::U8, 4), Op::Commit], End::Ok),
    ]
}

fn pattern_sources() -> Vec<Vec<u8>> {
    let mut v: Vec<Vec<u8>> = vec![vec![]];
    for a in 0..=255u8 {
        v.push(vec![a]);
    }
    // two-byte strings: a lattice (all 65536 in thorough via index arithmetic elsewhere)
    for a in [0u8, 1, 0x80, 0xff, 0x55, 0x0f] {
        for b in [0u8, 1, 0x80, 0xff, 0xaa, 0xf0] {
            v.push(vec![a, b]);
        }
    }
    // runs of zeros of every length around a one (start-code neighbourhood), lengths 3..6 bytes
    for total in 3..=6usize {
        for one_at in 0..total * 8 {
            let mut b = vec![0u8; total];
            b[one_at / 8] |= 0x80 >> (one_at % 8);
            v.push(b.clone());
            // and with ones before the zero run
            if one_at >= 17 {
                let mut c = b.clone();
                let pre = one_at - 17;
                if pre > 0 {
                    c[(pre - 1) / 8] |= 0x80 >> ((pre - 1) % 8);
                }
                v.push(c);
            }
        }
        v.push(vec![0xff; total]);
        v.push((0..total).map(|i| if i % 2 == 0 { 0xaa } else { 0x55 }).collect());
    }
    v
}

fn random_op(rng: &mut Rng, depth: usize, ntab: usize, top: bool) -> Op {
    let ty_u = [Ty::U8, Ty::U16, Ty::U32, Ty::U64, Ty::U128];
    let ty_s = [Ty::I16, Ty::I32, Ty::I64, Ty::U8, Ty::U16, Ty::U32];
    let width = |rng: &mut Rng, ty: Ty| -> u32 {
        match rng.below(10) {
            0 => ty.width() + 1 + rng.below(3) as u32,
            1 => ty.width(),
            2 => 0,
            3 if ty == Ty::U128 => 65 + rng.below(64) as u32,
            _ => rng.below(ty.width().min(33) as u64 + 1) as u32,
        }
    };
    let r = rng.below(if depth < 3 { 20 } else { 14 });
    match r {
        0 | 1 => {
            let ty = *rng.pick(&ty_u);
            Op::Peek(ty, width(rng, ty))
        }
        2..=4 => {
            let ty = *rng.pick(&ty_u);
            Op::Read(ty, width(rng, ty))
        }
        5 => {
            let ty = *rng.pick(&ty_s);
            Op::PeekS(ty, width(rng, ty))
        }
        6 | 7 => {
            let ty = *rng.pick(&ty_s);
            Op::ReadS(ty, width(rng, ty))
        }
        8 => match rng.below(12) {
            0 => Op::Skip(*rng.pick(&[4088u32 * 8, 4096 * 8, 4096 * 8 + 1, 8192 * 8 - 3, 32767, 32768, 65535, 65536]) + rng.below(9) as u32),
            1 => Op::Skip(rng.below(600_000) as u32),
            // counts at the very top of the 32-bit range (never available: end of data, nothing consumed)
            2 => Op::Skip(u32::MAX - rng.below(20) as u32),
            _ => Op::Skip(rng.below(40) as u32),
        },
        9 => {
            if rng.chance(1, 3) {
                if depth == 0 {
                    if rng.chance(1, 2) {
                        Op::Tx(vec![Op::ReadUmv], End::Ok)
                    } else {
                        Op::Look(vec![Op::ReadUmv], End::Ok)
                    }
                } else {
                    Op::ReadUmv
                }
            } else {
                Op::ReadU8
            }
        }
        10 => Op::StartCode(false),
        11 => Op::StartCode(rng.chance(1, 3)),
        12 => {
            // bare read_vlc only inside a protecting closure (position undefined on failure)
            let t = rng.below(ntab as u64) as usize;
            if depth == 0 {
                if rng.chance(1, 2) {
                    Op::Tx(vec![Op::Vlc(t)], End::Ok)
                } else {
                    Op::Look(vec![Op::Vlc(t)], End::Ok)
                }
            } else {
                Op::Vlc(t)
            }
        }
        13 => {
            if top {
                if rng.chance(1, 2) {
                    Op::Commit
                } else {
                    Op::Grow((0..1 + rng.below(4)).map(|_| rng.byte() & if rng.chance(1, 2) { 0 } else { 0xff }).collect())
                }
            } else {
                Op::Skip(rng.below(9) as u32)
            }
        }
        _ => {
            let n = 1 + rng.below(4) as usize;
            let mut inner: Vec<Op> = (0..n).map(|_| random_op(rng, depth + 1, ntab, false)).collect();
            let end = *rng.pick(&[End::Ok, End::Ok, End::Err, End::None]);
            match rng.below(3) {
                0 => {
                    let end = if end == End::None { End::Ok } else { end };
                    if depth == 0 && end == End::Ok && rng.chance(1, 4) {
                        inner.push(Op::Commit);
                    }
                    Op::Tx(inner, end)
                }
                1 => Op::Union(inner, end),
                _ => Op::Look(inner, if end == End::None { End::Ok } else { end }),
            }
        }
    }
}

fn random_source(rng: &mut Rng, small: bool) -> Vec<u8> {
    // mostly short sources; occasionally long ones that cross internal buffer-size boundaries
    let n = match rng.below(60) {
        0 => 4000 + rng.below(300) as usize,
        1 if !small => 8100 + rng.below(200) as usize,
        2 if !small => 1 + rng.below(70000) as usize,
        _ => rng.below(65) as usize,
    };
    let style = rng.below(4);
    (0..n)
        .map(|_| match style {
            0 => rng.byte(),
            1 => {
                if rng.chance(3, 4) {
                    0
                } else {
                    rng.byte()
                }
            }
            2 => *rng.pick(&[0u8, 0, 0x80, 0x01, 0xff]),
            _ => rng.byte() & rng.byte(),
        })
        .collect()
}

// ------------------------------------------------------------------------------------------

fn absorb(rep: &mut Report, lock: &Lock, pan: Option<crate::util::Panic>, src: &[u8], ops_desc: &dyn Fn() -> String, coords: &dyn Fn() -> J) {
    rep.evaluations += 1;
    if let Some(p) = pan {
        if p.loc.starts_with("src/") {
            rep.inconclusive.push(format!("harness panic at {}: {}", p.loc, p.msg));
        } else {
            rep.violation(format!("panic@{}", p.loc), format!("reader panicked: '{}' on source {} history {}", p.msg, hex(src), ops_desc()), coords());
        }
        return;
    }
    if let Some((sig, detail)) = &lock.mismatch {
        rep.violation(sig.clone(), format!("{} :: history {}", detail, ops_desc()), coords());
        return;
    }
    for (k, o) in &lock.counts {
        rep.count(&format!("op:{}:{}", k, o));
    }
    rep.add("operations_compared", lock.counts.len() as u64);
    for (i, n) in lock.phases.iter().enumerate() {
        if *n > 0 {
            rep.add(&format!("phase{}", i), *n);
        }
    }
    rep.add("reads_straddling_end", lock.straddle);
    rep.add("reads_of_65_to_128_bits", lock.wide);
    for (ph, k) in &lock.sc {
        rep.count(&format!("startcode:phase{}:{}", ph, k));
    }
}

pub fn run(ctx: &Ctx) -> (Report, String) {
    let thorough = ctx.tier == Tier::Thorough;
    let n_random = if ctx.miri() { 12 } else { ctx.n(12_000, 200_000) };
    let reps = par_shards(64, ctx.threads, |s| {
        let mut rep = Report::new();
        crate::mon::guarded(&mut rep, || J::obj().set("property", "C14").set("shard", s), |rep| shard(ctx, s, n_random, thorough, rep));
        rep
    });
    let mut rep = Report::merge_all(reps);
    if ctx.is_main() {
        let m = ctx.scale_pct;
        rep.require("operations_compared", if thorough { 300_000_000 } else { 15_000_000 } * m / 100);
        for k in ["op:read:ok", "op:read:eof", "op:read:width-error", "op:read_signed:ok", "op:peek:ok", "op:skip:eof", "op:read_umv:ok", "op:read_umv:err", "op:read_vlc:ok", "op:read_vlc:eof", "op:transaction:err", "op:transaction_union:none", "op:lookahead:ok", "op:commit:ok", "op:grow:ok", "op:start_code:found", "op:start_code:none", "op:start_code:eof", "op:start_code_in_error:found", "reads_straddling_end", "reads_of_65_to_128_bits", "op:vlc_table:syn-dag-chain", "op:vlc_table:syn-dag-ladder", "histories_over_an_interrupting_source", "long_histories", "phase0", "phase1", "phase2", "phase3", "phase4", "phase5", "phase6", "phase7"] {
            rep.require(k, 100);
        }
    }
    (rep, rule())
}

fn shard(ctx: &Ctx, s: usize, n_random: u64, thorough: bool, rep: &mut Report) {
    let tabs = tables();
    let alpha = alphabet(&tabs);
    let sources = pattern_sources();
    let base = || J::obj().set("property", "C14").set("tier", ctx.tier_name()).set("seed", ctx.seed).set("stage", ctx.stage.clone()).set("scale", ctx.scale_pct).set("shard", s).set("index", 0);
    // --- bounded-exhaustive: all 1- and 2-op sequences x sources (split over shards) x phases ---
    let stride = if thorough { 1 } else { 4 };
    let mut si = if ctx.miri() { usize::MAX } else { s };
    while si < sources.len() {
        let src = &sources[si];
        if ctx.scale_pct < 100 && si % (100 / ctx.scale_pct.max(1)) as usize != 0 {
            si += 64;
            continue;
        }
        for phase in 0..8u32 {
            for (ai, a) in alpha.iter().enumerate() {
                let (lock, pan) = run_history(src, 1 + (si % 3) + if si % 5 == 4 { 2000 } else { 0 }, phase, std::slice::from_ref(a), &tabs);
                absorb(rep, &lock, pan, src, &|| format!("phase={} {:?}", phase, a), &|| base().set("what", format!("exhaustive1 src={} phase={} op={}", si, phase, ai)));
                rep.distinct_enumerated += 1;
                rep.count("bounded_exhaustive_sequences");
                if (si / 64) % stride != 0 {
                    continue;
                }
                for (bi, b) in alpha.iter().enumerate() {
                    let ops = [a.clone(), b.clone()];
                    let (lock, pan) = run_history(src, 1 + (si % 3) + if si % 5 == 4 { 2000 } else { 0 }, phase, &ops, &tabs);
                    absorb(rep, &lock, pan, src, &|| format!("phase={} {:?}", phase, ops), &|| base().set("what", format!("exhaustive2 src={} phase={} ops={},{}", si, phase, ai, bi)));
                    rep.distinct_enumerated += 1;
                    rep.count("bounded_exhaustive_sequences");
                }
            }
        }
        si += 64;
    }
    if s == 0 {
        rep.sample(8, || J::obj().set("part", "bounded-exhaustive").set("alphabet_size", alpha.len()).set("sources", sources.len()).set("phases", 8).set("example_source", hex(&sources[300.min(sources.len() - 1)])).set("example_ops", format!("{:?}", &alpha[32..36])));
    }
    // --- random histories ---
    let mut rng = Rng::new(ctx.seed ^ 0xC14, s as u64);
    for i in 0..n_random {
        let src = random_source(&mut rng, ctx.miri());
        // mostly 20-200 operations; now and then a long history (counters, buffer turnover after hundreds of operations)
        let long_history = !ctx.miri() && rng.chance(1, 40);
        if long_history {
            rep.count("long_histories");
        }
        let nops = if long_history { 400 + rng.below(2600) as usize } else { 20 + rng.below(181) as usize };
        let ops: Vec<Op> = (0..nops).map(|_| random_op(&mut rng, 0, tabs.len(), true)).collect();
        let interrupts = if rng.chance(1, 4) { 1000 * (2 + rng.below(4) as usize) } else { 0 };
        if interrupts > 0 {
            rep.count("histories_over_an_interrupting_source");
        }
        let chunk = 1 + rng.below(5) as usize + interrupts;
        let phase = rng.below(8) as u32;
        let (lock, pan) = run_history(&src, chunk, phase, &ops, &tabs);
        let bad = lock.mismatch.is_some() || pan.is_some();
        absorb(rep, &lock, pan, &src, &|| format!("phase={} chunk={} {:?}", phase, chunk, ops), &|| base().set("what", format!("random history #{}", i)));
        rep.count("random_histories");
        if !bad && lock.consumed_ok {
            let mut h = fnv64(&src);
            h = crate::util::fnv64_more(h, format!("{:?}", ops).as_bytes());
            rep.distinct.insert(h);
        }
        if s == 1 && i < 2 {
            rep.sample(8, || J::obj().set("part", "random").set("source", hex(&src)).set("chunk", chunk).set("phase", phase as u64).set("first_ops", format!("{:?}", &ops[..ops.len().min(8)])).set("n_ops", ops.len()));
        }
    }
    let _ = tabs.iter().map(|t| t.name).count();
}

/// One random history from one generator stream (the coverage-guided stage drives this from a decision tape).
pub fn case(ctx: &Ctx, shard: usize, index: u64, rep: &mut Report) {
    let tabs = tables();
    let mut rng = Rng::new(ctx.seed ^ 0xC14C, ((shard as u64) << 40) | index);
    let src = random_source(&mut rng, true);
    let nops = 5 + rng.below(120) as usize;
    let ops: Vec<Op> = (0..nops).map(|_| random_op(&mut rng, 0, tabs.len(), true)).collect();
    let interrupts = if rng.chance(1, 4) { 1000 * (2 + rng.below(4) as usize) } else { 0 };
    let chunk = 1 + rng.below(5) as usize + interrupts;
    let phase = rng.below(8) as u32;
    let (lock, pan) = run_history(&src, chunk, phase, &ops, &tabs);
    absorb(rep, &lock, pan, &src, &|| format!("phase={} chunk={} {:?}", phase, chunk, ops), &|| crate::mon::coords("C14", ctx, shard, index));
    rep.count("random_histories");
}

pub fn replay_shard(ctx: &Ctx, s: usize, rep: &mut Report) {
    shard(ctx, s, ctx.n(12_000, 200_000), ctx.tier == Tier::Thorough, rep);
}
