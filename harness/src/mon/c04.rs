//! C04 - the reference picture is always the last non-disposable decoded picture.
//! History + two-register sequential model. Every picture carries fresh content and every
//! predicted picture a characteristic vector field with zero residual, so its planes
//! identify which earlier picture it was predicted from.

use super::pcheck::*;
use crate::gen::*;
use crate::json::J;
use crate::model::recon::{reconstruct, Planes};
use crate::model::syntax::*;
use crate::model::tables::MbKind;
use crate::report::Report;
use crate::sut::{Dec, Outcome};
use crate::util::{catch, fnv64, fnv64_more, hex, par_shards, Rng};
use crate::{Ctx, Tier};

pub fn rule() -> String {
    "cases = histories of 2-12 steps over {I, P, disposable P, rejected input, cleanup_buffers()} on one decoder, with temporal references drawn from increasing / all-equal / equal-to-reference / wrapping / random policies; after every step the most recent picture (header + planes) is compared with the model's `last` register, and every predicted picture's planes are compared with the model prediction from EVERY earlier picture: it must match the model's `reference` and no other; bounded-exhaustive over all histories of length <= 5 (thorough) plus random longer ones; distinct by hash of all step bytes; non-trivial = contains at least one predicted picture after a non-reference event (D, rejected input or cleanup)".into()
}

#[derive(Clone, Copy, Debug, PartialEq, Eq)]
pub enum Step {
    I,
    P,
    D,
    F,
    C,
    /// a predicted picture whose data ends early (inside a macroblock header): accepted, becomes the reference
    T,
    /// a disposable picture of another size made of intra macroblocks only: accepted, must not touch the reference
    X,
    /// a picture with a type code the property does not name (Sorenson type 3) whose every macroblock is "not
    /// coded": taken or refused - if taken, what it shows must not come from a disposable picture
    R,
}

impl Step {
    fn ch(self) -> char {
        match self {
            Step::I => 'I',
            Step::P => 'P',
            Step::D => 'D',
            Step::F => 'F',
            Step::C => 'C',
            Step::T => 'T',
            Step::X => 'X',
            Step::R => 'R',
        }
    }
}

/// A predicted picture whose every macroblock is INTER with a non-zero vector and no residual.
pub fn vector_field_picture(rng: &mut Rng, cfg: &PicCfg, disposable: bool) -> SymPicture {
    let hdr = make_header(cfg, if disposable { 2 } else { 1 }, rng);
    let (mbw, mbh) = ((cfg.w + 15) / 16, (cfg.h + 15) / 16);
    let mut mvs: Vec<[[i32; 2]; 4]> = vec![];
    let mut mbs = vec![];
    for i in 0..mbw * mbh {
        let mut v = [rng.range(-9, 9) as i32, rng.range(-9, 9) as i32];
        if v == [0, 0] {
            v = [3, -2];
        }
        let t = [v; 4];
        let d = diffs_for(&mvs, i, mbw, &t, false);
        mbs.push(SymMb::Coded { kind: MbKind::Inter, dquant: 1, mvd: d, blocks: std::array::from_fn(|_| SymBlock::default()) });
        mvs.push(t);
    }
    SymPicture { hdr, w: cfg.w, h: cfg.h, mbs, stuffing: vec![] }
}

/// Long histories use 32x16 pictures: macroblock 0 is predicted with a vector that reaches into
/// the right half of the reference, macroblock 1 is intra with fresh texture - so content never
/// converges to something flat, however long the chain of predictions gets.
pub fn long_history_picture(rng: &mut Rng, cfg: &PicCfg, disposable: bool) -> SymPicture {
    let hdr = make_header(cfg, if disposable { 2 } else { 1 }, rng);
    let lc = LevelCfg { v1: cfg.flavour == Flavour::Sor(1), wide: false };
    let v = [rng.range(10, 26) as i32, rng.range(-6, 6) as i32];
    let inter = SymMb::Coded { kind: MbKind::Inter, dquant: 1, mvd: [v, [0; 2], [0; 2], [0; 2]], blocks: std::array::from_fn(|_| SymBlock::default()) };
    let intra = SymMb::Coded { kind: MbKind::Intra, dquant: 1, mvd: [[0; 2]; 4], blocks: std::array::from_fn(|_| gen_block(rng, true, Shape::Sparse, lc)) };
    SymPicture { hdr, w: cfg.w, h: cfg.h, mbs: vec![inter, intra], stuffing: vec![] }
}

pub fn failing_input(rng: &mut Rng, cfg: &PicCfg) -> Vec<u8> {
    match rng.below(if cfg.flavour == Flavour::StdPlus { 7 } else { 5 }) {
        5 | 6 => {
            // standard mode: a PLUSPTYPE picture that switches optional modes on and is rejected after its header
            let inter = rng.chance(1, 2);
            let hd = crate::mon::ladder::plus_header_with_modes(rng, cfg.w, cfg.h, inter);
            let bad = SymMb::Coded { kind: MbKind::Intra, dquant: 1, mvd: [[0; 2]; 4], blocks: std::array::from_fn(|_| SymBlock { intradc: Some(0), events: vec![] }) };
            SymPicture { hdr: Hdr::Std(hd), w: cfg.w, h: cfg.h, mbs: vec![bad], stuffing: vec![] }.encode()
        }
        0 => vec![],
        1 => vec![0xff, 0x12, 0x34],
        2 => {
            let p = gen_intra(rng, cfg);
            let mut b = p.encode();
            b.truncate(3);
            b
        }
        3 => {
            // valid header, then an invalid INTRADC in the first block
            let mut p = gen_intra(rng, cfg);
            if let Some(SymMb::Coded { blocks, .. }) = p.mbs.first_mut() {
                blocks[0].intradc = Some(0);
            }
            p.encode()
        }
        _ => {
            // intra picture header followed by a "not coded" style garbage: reserved size code / type
            let mut p = gen_intra(rng, cfg);
            match &mut p.hdr {
                Hdr::Sor(h) => h.ptype = 3,
                Hdr::Std(h) => h.fmt = 0,
            }
            if let Hdr::Std(h) = &mut p.hdr {
                h.plus = None;
            }
            p.encode()
        }
    }
}

struct Stored {
    planes: Planes,
    tr: u8,
    kind: Step,
}

pub fn run_history(ctx: &Ctx, steps: &[Step], tr_policy: u64, sorenson: bool, rng: &mut Rng, rep: &mut Report, coords: &dyn Fn() -> J) {
    let hist: String = steps.iter().map(|s| s.ch()).collect();
    // Sorenson streams: version 0 or 1 as a rule; now and then another value of the 5-bit field (the decoder
    // takes all 32; anything but 1 uses the version-0 escape form)
    let flavour = if sorenson { Flavour::Sor(if rng.chance(1, 6) { 2 + rng.below(30) as u8 } else { rng.below(2) as u8 }) } else { Flavour::StdPlus };
    let long = steps.len() > 40;
    let (w, h) = if long {
        (32, 16)
    } else {
        (16 * (1 + rng.below(3) as usize) - if sorenson { rng.below(5) as usize } else { 0 }, 16 * (1 + rng.below(2) as usize) - if sorenson { rng.below(5) as usize } else { 0 })
    };
    let mut cfg = gen_cfg(rng, flavour, w, h);
    cfg.stuffing_pct = 0;
    cfg.pei = 0;
    let mut dec = Dec::new(sorenson, sorenson && rng.chance(1, 4));
    dec.chunk = *rng.pick(&[usize::MAX, usize::MAX, usize::MAX, 1, 4, 100]);
    if rng.chance(1, 6) {
        dec.stall = Some((rng.below(1001) as usize, rng.below(3) as u8));
    }
    // ... or arrive late: the first few bytes of each picture now, the rest after the call failed for lack of data
    if dec.stall.is_none() && rng.chance(1, 8) {
        dec.trickle = Some(1 + rng.below(6) as usize);
    }
    let mut stored: Vec<Stored> = vec![];
    let (mut last, mut reference): (Option<usize>, Option<usize>) = (None, None);
    let mut tr = rng.byte();
    let mut fp = fnv64(hist.as_bytes());
    let mut nontrivial = false;
    let mut since_ref_event = false;
    rep.evaluations += 1;
    let _ = ctx;
    for (si, st0) in steps.iter().enumerate() {
        let st = &(if long && *st0 == Step::X { Step::D } else { *st0 });
        // temporal reference for this step
        tr = match tr_policy {
            0 => tr.wrapping_add(1),
            1 => tr,
            2 => reference.map(|r| stored[r].tr).unwrap_or(tr),
            3 => {
                if si == 0 {
                    254
                } else {
                    tr.wrapping_add(1)
                }
            }
            _ => rng.byte(),
        };
        cfg.tr = tr;
        cfg.quant = 1 + rng.below(31) as u8;
        // extra-information bytes (whatever they say, they do not concern which picture is shown or referenced)
        cfg.pei = if long { 0 } else { *rng.pick(&[0usize, 0, 1, 1, 2]) };
        if cfg.pei > 0 {
            rep.count("pictures_with_extra_information_bytes");
        }
        let ctxs = |what: &str| format!("history {} step {} ({}) tr-policy {} {}x{} {}: {}", hist, si, st.ch(), tr_policy, w, h, flavour.name(), what);
        match st {
            Step::C => {
                if let Err(p) = catch(|| dec.st.cleanup_buffers()) {
                    rep.violation(format!("panic@{}", p.loc), ctxs(&p.msg), coords());
                    return;
                }
                since_ref_event = true;
                rep.count("cleanup_calls");
            }
            Step::F => {
                let b = failing_input(rng, &cfg);
                fp = fnv64_more(fp, &b);
                match dec.decode(&b) {
                    Outcome::Err(_) => rep.count("rejected_inputs"),
                    Outcome::Ok => {
                        // an input meant to fail decoded: not this property's concern; the history is void
                        rep.count("void:failing-input-accepted");
                        return;
                    }
                    Outcome::Panic { msg, loc } => {
                        rep.violation(format!("panic@{}", loc), ctxs(&msg), coords());
                        return;
                    }
                }
                since_ref_event = true;
            }
            Step::I => {
                let pic = gen_reference(rng, &cfg);
                let b = pic.encode();
                fp = fnv64_more(fp, &b);
                match dec.decode(&b) {
                    Outcome::Ok => {}
                    o => {
                        rep.count(&format!("void:intra-failed:{}", o.short()));
                        return;
                    }
                }
                let planes = dec.planes().unwrap();
                stored.push(Stored { planes, tr, kind: Step::I });
                last = Some(stored.len() - 1);
                reference = last;
                since_ref_event = false;
            }
            Step::R => {
                let mut pic = vector_field_picture(rng, &cfg, false);
                match &mut pic.hdr {
                    Hdr::Sor(hd) => hd.ptype = 3,
                    _ => continue,
                }
                for mb in pic.mbs.iter_mut() {
                    *mb = SymMb::NotCoded;
                }
                let b = pic.encode();
                fp = fnv64_more(fp, &b);
                rep.count("other_type_all_not_coded_pictures");
                match dec.decode(&b) {
                    Outcome::Err(_) => {
                        rep.count("other_type_all_not_coded_refused");
                        since_ref_event = true;
                    }
                    Outcome::Panic { msg, loc } => {
                        rep.violation(format!("panic@{}", loc), ctxs(&msg), coords());
                        return;
                    }
                    Outcome::Ok => {
                        let got = dec.planes().unwrap();
                        let Some(r) = reference else {
                            rep.count("void:other-type-accepted-without-reference");
                            return;
                        };
                        if got == stored[r].planes {
                            // a repeat of the reference; it is the most recent picture now and, not being
                            // disposable, the reference (same content either way)
                            rep.count("other_type_all_not_coded_repeats_reference");
                            if last != reference {
                                rep.count("other_type_all_not_coded_after_disposable");
                                nontrivial = true;
                            }
                            stored.push(Stored { planes: got, tr, kind: Step::R });
                            last = Some(stored.len() - 1);
                            reference = last;
                            since_ref_event = false;
                        } else if let Some(j) = (0..stored.len()).find(|j| matches!(stored[*j].kind, Step::D | Step::X) && stored[*j].planes == got) {
                            rep.violation("wrong-reference/other-type-shows-a-disposable-picture", ctxs(&format!("an accepted picture of type code 3 with every macroblock not coded shows the content of disposable picture {} instead of the reference {} (kinds so far: {})", j, r, stored.iter().map(|s| s.kind.ch()).collect::<String>())), coords());
                            return;
                        } else {
                            rep.count("void:other-type-shows-something-else");
                            return;
                        }
                    }
                }
            }
            Step::X => {
                // other size, intra macroblocks only, disposable: needs no reference and must not alter it
                let mut c2 = cfg.clone();
                c2.w = cfg.w + 16 * (1 + rng.below(2) as usize);
                c2.h = if rng.chance(1, 2) { cfg.h } else { cfg.h + 7 };
                let mut pic = gen_reference(rng, &c2);
                if let Hdr::Sor(hd) = &mut pic.hdr {
                    hd.ptype = 2;
                }
                let b = pic.encode();
                fp = fnv64_more(fp, &b);
                match dec.decode(&b) {
                    Outcome::Ok => {}
                    Outcome::Panic { msg, loc } => {
                        rep.violation(format!("panic@{}", loc), ctxs(&msg), coords());
                        return;
                    }
                    Outcome::Err(k) => {
                        // an all-intra picture needs no prediction; a decoder may still refuse the size change
                        rep.count(&format!("void:all-intra-disposable-refused:{}", k));
                        return;
                    }
                }
                let planes = dec.planes().unwrap();
                stored.push(Stored { planes, tr, kind: Step::X });
                last = Some(stored.len() - 1);
                since_ref_event = true;
                rep.count("all_intra_disposable_of_other_size");
            }
            Step::P | Step::D | Step::T => {
                let disposable = *st == Step::D;
                let mut pic = if long { long_history_picture(rng, &cfg, disposable) } else { vector_field_picture(rng, &cfg, disposable) };
                // standard mode: half of the predicted pictures do not restate format and modes (UFEP = 000)
                if !sorenson && rng.chance(1, 2) && drop_format(&mut pic) {
                    rep.count("predicted_pictures_without_restated_modes");
                }
                if *st == Step::T {
                    let n = pic.mbs.len();
                    pic.mbs.truncate(rng.below(n as u64) as usize);
                    rep.count("early_ending_predicted_pictures");
                }
                let b = pic.encode();
                fp = fnv64_more(fp, &b);
                let out = dec.decode(&b);
                let Some(r) = reference else {
                    match out.clone() {
                        Outcome::Err(_) => rep.count("predicted_without_reference_rejected"),
                        Outcome::Ok => rep.violation("accepted-without-reference", ctxs("a predicted picture decoded although no reference exists"), coords()),
                        Outcome::Panic { msg, loc } => rep.violation(format!("panic@{}", loc), ctxs(&msg), coords()),
                    }
                    if !matches!(out, Outcome::Err(_)) {
                        return;
                    }
                    continue;
                };
                let collision = stored[r].tr == tr;
                let cflag = if collision { "/tr-collision" } else { "" };
                match out {
                    Outcome::Ok => {}
                    Outcome::Err(k) => {
                        rep.violation(format!("rejected/{}/{}", st.ch(), k), ctxs(&format!("valid {} picture rejected with {}", if disposable { "disposable" } else { "predicted" }, k)), coords());
                        return;
                    }
                    Outcome::Panic { msg, loc } => {
                        rep.violation(format!("panic@{}", loc), ctxs(&msg), coords());
                        return;
                    }
                }
                let got = dec.planes().unwrap();
                // which earlier pictures explain the decoded planes?
                let mut matches_idx: Vec<usize> = vec![];
                for (j, s) in stored.iter().enumerate() {
                    // long histories: only the recent pictures and the reference are candidates (keeps the check linear)
                    if long && j + 6 < stored.len() && j != r {
                        continue;
                    }
                    // pictures of another size cannot be the reference of this one; pictures with the very
                    // same content as the reference are indistinguishable from it and do not matter
                    if s.planes.w != pic.w || s.planes.h != pic.h || (j != r && s.planes == stored[r].planes) {
                        continue;
                    }
                    let rec = match reconstruct(&pic, Some(&s.planes)) {
                        Ok(r) => r,
                        Err(e) => {
                            rep.inconclusive.push(e);
                            return;
                        }
                    };
                    if crate::model::recon::compare(&rec, &got.y, &got.cb, &got.cr).0.is_none() {
                        matches_idx.push(j);
                    }
                }
                if matches_idx == vec![r] {
                    rep.count("predictions_identified");
                    if since_ref_event || last != reference {
                        nontrivial = true;
                        rep.count("predictions_after_non_reference_event");
                    }
                    if collision {
                        rep.count("tr_collision_cases");
                    }
                } else if matches_idx.contains(&r) {
                    // ambiguous content (two stored pictures give the same prediction): not decidable
                    rep.count("void:ambiguous-prediction");
                    return;
                } else {
                    let what = if matches_idx.is_empty() {
                        "matches-no-stored-picture".to_string()
                    } else if Some(matches_idx[0]) == last {
                        format!("predicted-from-most-recent-{}-instead-of-reference", stored[matches_idx[0]].kind.ch())
                    } else {
                        "predicted-from-older-picture".to_string()
                    };
                    rep.violation(format!("wrong-reference/{}{}", what, cflag), ctxs(&format!("decoded planes equal the prediction from stored picture(s) {:?}, the reference is picture {} (kinds so far: {})", matches_idx, r, stored.iter().map(|s| s.kind.ch()).collect::<String>())), coords());
                    return;
                }
                stored.push(Stored { planes: got, tr, kind: if *st == Step::T { Step::P } else { *st } });
                last = Some(stored.len() - 1);
                if !disposable {
                    reference = last;
                    since_ref_event = false;
                }
            }
        }
        // most recent picture must be the model's `last`
        match (last, dec.snapshot()) {
            (None, None) => {}
            (Some(l), Some((hv, planes, _))) => {
                let s = &stored[l];
                let type_ok = match s.kind {
                    Step::I => hv.ptype == "IFrame",
                    Step::P | Step::T => hv.ptype == "PFrame",
                    Step::R => hv.ptype == "Reserved(3)",
                    _ => hv.ptype == "DisposablePFrame",
                };
                if planes != s.planes || hv.tr != s.tr as u16 || !type_ok {
                    rep.violation(format!("last-picture/after-{}", st.ch()), ctxs(&format!("most recent picture reports tr={} type={} (model: tr={} kind={}), planes equal: {}", hv.tr, hv.ptype, s.tr, s.kind.ch(), planes == s.planes)), coords());
                    return;
                }
                rep.count("last_picture_checks");
            }
            (a, b) => {
                rep.violation("last-picture/presence", ctxs(&format!("model last = {:?}, decoder reports a picture: {}", a, b.is_some())), coords());
                return;
            }
        }
        // the picture the decoder itself names as its reference must be the model's `reference`
        let got_ref = dec.st.get_reference_picture().map(|p| {
            let (y, _, _) = p.as_yuv();
            (crate::sut::view_of(p.as_header()).tr, y.to_vec())
        });
        match (reference, got_ref) {
            (None, None) => {}
            (Some(r), Some((rtr, y))) => {
                if rtr != stored[r].tr as u16 || y != stored[r].planes.y {
                    rep.violation(format!("reference-picture/after-{}", st.ch()), ctxs(&format!("get_reference_picture() reports tr={} (model reference: tr={} kind={}), luma equal: {}", rtr, stored[r].tr, stored[r].kind.ch(), y == stored[r].planes.y)), coords());
                    return;
                }
                rep.count("reference_picture_checks");
            }
            (a, b) => {
                rep.violation("reference-picture/presence", ctxs(&format!("model reference = {:?}, decoder reports a reference: {}", a, b.is_some())), coords());
                return;
            }
        }
    }
    let _ = &reference;
    for w2 in steps.windows(2) {
        rep.count(&format!("bigram:{}{}", w2[0].ch(), w2[1].ch()));
    }
    for w3 in steps.windows(3) {
        rep.count(&format!("trigram:{}{}{}", w3[0].ch(), w3[1].ch(), w3[2].ch()));
    }
    rep.count(&format!("len={}", if steps.len() > 40 { "long".to_string() } else { steps.len().to_string() }));
    rep.count("histories_completed");
    rep.add("calls_repeated_after_transient_source_error", dec.stalls_retried as u64);
    if nontrivial {
        rep.distinct.insert(fp);
    }
}

const ALPHA: [Step; 7] = [Step::I, Step::P, Step::D, Step::F, Step::C, Step::T, Step::X];

/// Histories with long runs of one event between a reference and the picture that must still be
/// predicted from it: I X^n P P, for X in {D, F, C, P} and n around 2^4, 2^8, 2^16.
pub fn ladder_items(thorough: bool) -> Vec<(Vec<Step>, u64)> {
    let mut v = vec![];
    let runs: &[(Step, &[usize])] = &[
        (Step::D, &[15, 16, 17, 255, 256, 257, 65535, 65536, 65537]),
        (Step::F, &[15, 16, 17, 40, 255, 256, 257, 1000]),
        (Step::C, &[16, 256, 257]),
        (Step::P, &[255, 256, 257, 65536]),
    ];
    for (x, ns) in runs {
        for &n in ns.iter() {
            if !thorough && n > 60000 && !(n == 65536 || (n == 65537 && *x == Step::D)) {
                continue;
            }
            for pol in [0u64, 4] {
                if n > 60000 && pol == 4 && !thorough {
                    continue;
                }
                let mut s = vec![Step::I];
                s.extend(std::iter::repeat(*x).take(n));
                s.extend([Step::P, Step::D, Step::P]);
                v.push((s, pol));
            }
        }
    }
    v
}

pub fn case(ctx: &Ctx, shard: usize, index: u64, rep: &mut Report) {
    let mut rng = Rng::new(ctx.seed ^ 0xC04, ((shard as u64) << 40) | index);
    let sorenson = rng.chance(4, 5);
    let alpha: &[Step] = if sorenson { &ALPHA } else { &[Step::I, Step::P, Step::F, Step::C, Step::T] };
    // a few very long histories (counters that wrap after 256 events, maps that grow, ...)
    let n = if rng.chance(1, 250) { 260 + rng.below(400) as usize } else { 2 + rng.below(11) as usize };
    let mut steps: Vec<Step> = vec![];
    // most histories start with an I picture so that predictions are possible
    if rng.chance(9, 10) {
        steps.push(Step::I);
    }
    let wts: &[u64] = if sorenson { &[4, 8, 8, 2, 2, 3, 2] } else { &[4, 10, 2, 2, 3] };
    let tot: u64 = wts.iter().sum();
    while steps.len() < n {
        let mut r = rng.below(tot);
        let mut k = 0;
        while r >= wts[k] {
            r -= wts[k];
            k += 1;
        }
        steps.push(alpha[k]);
    }
    // now and then a picture of another type code (all macroblocks not coded) right after a disposable one or anywhere
    if sorenson && n < 100 && rng.chance(1, 5) {
        let after_d: Vec<usize> = (0..steps.len()).filter(|i| steps[*i] == Step::D).collect();
        let at = if !after_d.is_empty() && rng.chance(2, 3) { *rng.pick(&after_d) + 1 } else { rng.below(steps.len() as u64 + 1) as usize };
        steps.insert(at, Step::R);
    }
    let pol = rng.below(5);
    let coords = || crate::mon::coords("C04", ctx, shard, index);
    if shard == 0 && index < 4 {
        rep.sample(8, || J::obj().set("history", steps.iter().map(|s| s.ch()).collect::<String>()).set("tr_policy", ["increasing", "all-equal", "equal-to-reference", "wrapping-from-254", "random"][pol as usize]).set("sorenson", sorenson));
    }
    run_history(ctx, &steps, pol, sorenson, &mut rng, rep, &coords);
}

pub fn run(ctx: &Ctx) -> (Report, String) {
    let per_shard = ctx.n(4000, 60000);
    let thorough = ctx.tier == Tier::Thorough;
    let reps = par_shards(64, ctx.threads, |s| {
        let mut rep = Report::new();
        for i in 0..per_shard {
            crate::mon::guarded(&mut rep, || crate::mon::coords("C04", ctx, s, i), |rep| case(ctx, s, i, rep));
        }
        // bounded-exhaustive: all histories of length <= L over the 7-letter alphabet x 3 TR policies
        let maxlen = if thorough { 5 } else { 4 };
        let mut rng = Rng::new(ctx.seed ^ 0xC04E, s as u64);
        let mut idx = 0u64;
        for len in 1..=maxlen {
            let total = 7u64.pow(len as u32);
            for code in 0..total {
                idx += 1;
                if idx % 64 != s as u64 {
                    continue;
                }
                let mut c = code;
                let steps: Vec<Step> = (0..len)
                    .map(|_| {
                        let k = (c % 7) as usize;
                        c /= 7;
                        ALPHA[k]
                    })
                    .collect();
                for pol in [0u64, 1, 2] {
                    let coords = || J::obj().set("property", "C04").set("kind", "exhaustive").set("tier", ctx.tier_name()).set("seed", ctx.seed).set("stage", ctx.stage.clone()).set("history", steps.iter().map(|s| s.ch()).collect::<String>()).set("policy", pol);
                    crate::mon::guarded(&mut rep, coords, |rep| run_history(ctx, &steps, pol, true, &mut rng, rep, &coords));
                    rep.count("bounded_exhaustive_histories");
                }
            }
        }
        rep
    });
    let mut rep = Report::merge_all(reps);
    // run-length ladder: counters that wrap after 2^4 / 2^8 / 2^16 events
    if !ctx.miri() && ctx.is_main() {
        let items = ladder_items(thorough);
        let lr = par_shards(items.len(), ctx.threads, |k| {
            let mut r = Report::new();
            let (steps, pol) = &items[k];
            let mut rng = Rng::new(ctx.seed ^ 0xC04AD, k as u64);
            let coords = || J::obj().set("property", "C04").set("kind", "ladder").set("tier", ctx.tier_name()).set("seed", ctx.seed).set("stage", ctx.stage.clone()).set("k", k);
            let before = r.get("histories_completed");
            crate::mon::guarded(&mut r, coords, |r| run_history(ctx, steps, *pol, true, &mut rng, r, &coords));
            if r.get("histories_completed") > before {
                r.count("ladder_histories_completed");
            }
            r
        });
        rep.merge(Report::merge_all(lr));
        rep.require("ladder_histories_completed", items.len() as u64 * 9 / 10);
    }
    if ctx.is_main() {
        let m = ctx.scale_pct;
        rep.require("histories_completed", if thorough { 2_500_000 } else { 150_000 } * m / 100);
        for k in ["predictions_identified", "predictions_after_non_reference_event", "tr_collision_cases", "trigram:IDP", "trigram:PDP", "trigram:DDP", "trigram:DFP", "trigram:DCP", "bigram:DD", "cleanup_calls", "rejected_inputs", "last_picture_checks", "reference_picture_checks", "early_ending_predicted_pictures", "all_intra_disposable_of_other_size", "trigram:TPP", "trigram:XPP", "calls_repeated_after_transient_source_error", "pictures_with_extra_information_bytes", "predicted_pictures_without_restated_modes", "other_type_all_not_coded_pictures"] {
            rep.require(k, 100 * m / 100);
        }
    }
    (rep, rule())
}

pub fn replay(ctx: &Ctx, j: &J, rep: &mut Report) {
    if j.get("kind").and_then(|k| k.as_str()) == Some("ladder") {
        let k = j.get("k").and_then(|k| k.as_i64()).unwrap_or(0) as usize;
        let items = ladder_items(true);
        let items = if k < ladder_items(ctx.tier == Tier::Thorough).len() { ladder_items(ctx.tier == Tier::Thorough) } else { items };
        let (steps, pol) = &items[k];
        let mut rng = Rng::new(ctx.seed ^ 0xC04AD, k as u64);
        let jj = j.clone();
        run_history(ctx, steps, *pol, true, &mut rng, rep, &move || jj.clone());
        return;
    }
    if j.get("kind").and_then(|k| k.as_str()) == Some("exhaustive") {
        let steps: Vec<Step> = j
            .get("history")
            .and_then(|h| h.as_str())
            .unwrap_or("")
            .chars()
            .map(|c| match c {
                'I' => Step::I,
                'P' => Step::P,
                'D' => Step::D,
                'F' => Step::F,
                'T' => Step::T,
                'X' => Step::X,
                'R' => Step::R,
                _ => Step::C,
            })
            .collect();
        let pol = j.get("policy").and_then(|p| p.as_i64()).unwrap_or(0) as u64;
        let mut rng = Rng::new(ctx.seed ^ 0xC04E, 0);
        let jj = j.clone();
        run_history(ctx, &steps, pol, true, &mut rng, rep, &move || jj.clone());
        return;
    }
    let shard = j.get("shard").and_then(|s| s.as_i64()).unwrap_or(0) as usize;
    let index = j.get("index").and_then(|s| s.as_i64()).unwrap_or(0) as u64;
    case(ctx, shard, index, rep);
}

#[allow(dead_code)]
fn _h(b: &[u8]) -> String {
    hex(b)
}
