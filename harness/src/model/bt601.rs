//! BT.601 studio-range YCbCr -> full-range RGB, with coefficients computed from
//! the defining constants (not copied), in 16.16 fixed point.

pub struct Coef {
    pub gray: i64,
    pub cr2r: i64,
    pub cr2g: i64,
    pub cb2g: i64,
    pub cb2b: i64,
}

pub fn coef() -> Coef {
    let s = 65536.0f64;
    let ys = 255.0 / 219.0;
    let cs = 255.0 / 224.0;
    Coef {
        gray: (ys * s).round() as i64,
        cr2r: (cs * 1.402 * s).round() as i64,
        cr2g: (-(cs) * 1.402 * (0.299 / 0.587) * s).round() as i64,
        cb2g: (-(cs) * 1.772 * (0.114 / 0.587) * s).round() as i64,
        cb2b: (cs * 1.772 * s).round() as i64,
    }
}

/// Fixed-point model: round to nearest (add half, arithmetic shift), clamp.
pub fn convert_fixed(k: &Coef, y: u8, cb: u8, cr: u8) -> [u8; 4] {
    let y = y as i64 - 16;
    let cb = cb as i64 - 128;
    let cr = cr as i64 - 128;
    let half = 32768i64;
    let r = (y * k.gray + cr * k.cr2r + half) >> 16;
    let g = (y * k.gray + cr * k.cr2g + cb * k.cb2g + half) >> 16;
    let b = (y * k.gray + cb * k.cb2b + half) >> 16;
    [r.clamp(0, 255) as u8, g.clamp(0, 255) as u8, b.clamp(0, 255) as u8, 255]
}

/// Real-valued formula (clamped), for the "within 1" clause.
pub fn convert_real(y: u8, cb: u8, cr: u8) -> [f64; 3] {
    let ys = 255.0 / 219.0;
    let cs = 255.0 / 224.0;
    let y = (y as f64 - 16.0) * ys;
    let cb = (cb as f64 - 128.0) * cs;
    let cr = (cr as f64 - 128.0) * cs;
    let r = y + 1.402 * cr;
    let g = y - 1.402 * (0.299 / 0.587) * cr - 1.772 * (0.114 / 0.587) * cb;
    let b = y + 1.772 * cb;
    [r.clamp(0.0, 255.0), g.clamp(0.0, 255.0), b.clamp(0.0, 255.0)]
}
