//! Symbolic pictures (header + macroblock list) and their bitstream encoder,
//! following ITU-T H.263 clauses 5.3 (macroblock layer) and 5.4 (block layer)
//! and the Sorenson Spark variations (version-1 escape widths).

use super::bits::BitWriter;
use super::header::{Inherited, SorHeader, StdHeader};
use super::tables::*;

#[derive(Clone, Copy, Debug, PartialEq, Eq, Hash)]
pub enum Esc {
    /// Use the Table 16 short code (the event must be in the table).
    Short,
    /// ESCAPE + LAST + RUN + 8-bit LEVEL (standard, Sorenson version 0).
    Esc8,
    /// Sorenson version 1: ESCAPE + '0' + LAST + RUN + 7-bit LEVEL.
    Esc7,
    /// Sorenson version 1: ESCAPE + '1' + LAST + RUN + 11-bit LEVEL.
    Esc11,
}

#[derive(Clone, Copy, Debug, PartialEq, Eq, Hash)]
pub struct Ev {
    pub run: u8,
    pub level: i32,
    pub esc: Esc,
}

#[derive(Clone, Debug, PartialEq, Eq, Hash, Default)]
pub struct SymBlock {
    /// INTRADC code (FLC of Table 15), present for blocks of intra macroblocks.
    pub intradc: Option<u8>,
    pub events: Vec<Ev>,
}

#[derive(Clone, Debug, PartialEq, Eq, Hash)]
pub enum SymMb {
    /// Arbitrary (value, length) bit groups in place of a macroblock: used only by the
    /// fault-injecting generators to put an invalid code at a chosen depth.
    Raw(Vec<(u32, u32)>),
    NotCoded,
    Coded {
        kind: MbKind,
        /// DQUANT value (-2,-1,1,2) for the +Q kinds.
        dquant: i8,
        /// Differentials in half-sample units (-32..=31); [0] for one-vector kinds.
        mvd: [[i32; 2]; 4],
        blocks: [SymBlock; 6],
    },
}

#[derive(Clone, Debug, PartialEq)]
pub enum Hdr {
    Sor(SorHeader),
    Std(StdHeader),
}

#[derive(Clone, Debug, PartialEq)]
pub struct SymPicture {
    pub hdr: Hdr,
    pub w: usize,
    pub h: usize,
    /// Macroblocks in raster order; may be shorter than the picture (early end).
    pub mbs: Vec<SymMb>,
    /// Number of MCBPC stuffing codewords to emit before macroblock i.
    pub stuffing: Vec<u8>,
}

impl SymPicture {
    pub fn is_intra_picture(&self) -> bool {
        match &self.hdr {
            Hdr::Sor(h) => h.ptype == 0,
            Hdr::Std(h) => match &h.plus {
                Some(p) => p.ptype == 0,
                None => !h.inter,
            },
        }
    }
    pub fn mbw(&self) -> usize {
        (self.w + 15) / 16
    }
    pub fn mbh(&self) -> usize {
        (self.h + 15) / 16
    }
    pub fn quant(&self) -> u8 {
        match &self.hdr {
            Hdr::Sor(h) => h.quant,
            Hdr::Std(h) => h.quant,
        }
    }
    pub fn tr(&self) -> u8 {
        match &self.hdr {
            Hdr::Sor(h) => h.tr,
            Hdr::Std(h) => h.tr,
        }
    }
    pub fn sorenson(&self) -> bool {
        matches!(self.hdr, Hdr::Sor(_))
    }

    /// Encode header + macroblocks; no trailing padding is added.
    /// Returns the writer and the bit offset at which each macroblock (incl. its
    /// stuffing) starts, plus the end offset.
    pub fn encode_bits(&self) -> (BitWriter, Vec<usize>) {
        let (w, offs, _) = self.encode_bits_ex();
        (w, offs)
    }

    /// As `encode_bits`, plus for every macroblock the bit offset at which its header (COD, MCBPC,
    /// CBPY, DQUANT, MVDs) ends and its block data starts.
    pub fn encode_bits_ex(&self) -> (BitWriter, Vec<usize>, Vec<usize>) {
        let mut w = BitWriter::new();
        match &self.hdr {
            Hdr::Sor(h) => h.encode(&mut w),
            Hdr::Std(h) => {
                h.encode(&mut w, false, &Inherited::default());
            }
        }
        let intra_pic = self.is_intra_picture();
        let umv = matches!(&self.hdr, Hdr::Std(h) if h.plus.as_ref().map_or(false, |p| p.ufep == 1 && p.umv));
        let mut offs = Vec::with_capacity(self.mbs.len() + 1);
        let mut hdr_ends = Vec::with_capacity(self.mbs.len());
        for (i, mb) in self.mbs.iter().enumerate() {
            offs.push(w.nbits);
            for _ in 0..self.stuffing.get(i).copied().unwrap_or(0) {
                if !intra_pic {
                    w.put(0, 1);
                }
                w.code(MCBPC_STUFFING);
            }
            hdr_ends.push(encode_mb_ex(&mut w, mb, intra_pic, umv));
        }
        offs.push(w.nbits);
        (w, offs, hdr_ends)
    }

    /// Encode and pad with zero bits to a byte boundary.
    pub fn encode(&self) -> Vec<u8> {
        let (mut w, _) = self.encode_bits();
        w.align();
        w.bytes
    }
}

pub fn encode_event(w: &mut BitWriter, ev: &Ev, last: bool) {
    let mag = ev.level.unsigned_abs();
    match ev.esc {
        Esc::Short if ev.level == 0 => {
            // fault injection: a prefix that is not in Table 16
            w.put(0, 9);
        }
        Esc::Short => {
            let c = tcoef_short(last, ev.run, mag).expect("event not in Table 16");
            w.code(c);
            w.put((ev.level < 0) as u32, 1);
        }
        Esc::Esc8 => {
            w.code(TCOEF_ESCAPE);
            w.put(last as u32, 1);
            w.put(ev.run as u32, 6);
            w.put((ev.level as u32) & 0xff, 8);
        }
        Esc::Esc7 => {
            w.code(TCOEF_ESCAPE);
            w.put(0, 1);
            w.put(last as u32, 1);
            w.put(ev.run as u32, 6);
            w.put((ev.level as u32) & 0x7f, 7);
        }
        Esc::Esc11 => {
            w.code(TCOEF_ESCAPE);
            w.put(1, 1);
            w.put(last as u32, 1);
            w.put(ev.run as u32, 6);
            w.put((ev.level as u32) & 0x7ff, 11);
        }
    }
}

pub fn encode_block(w: &mut BitWriter, b: &SymBlock) {
    if let Some(dc) = b.intradc {
        w.put(dc as u32, 8);
    }
    let n = b.events.len();
    for (i, ev) in b.events.iter().enumerate() {
        encode_event(w, ev, i + 1 == n);
    }
}

pub fn dquant_code(d: i8) -> u32 {
    match d {
        -1 => 0,
        -2 => 1,
        1 => 2,
        2 => 3,
        _ => panic!("bad dquant"),
    }
}

/// Returns the bit offset at which the macroblock's header ends (= where its block data starts).
pub fn encode_mb(w: &mut BitWriter, mb: &SymMb, intra_pic: bool) -> usize {
    encode_mb_ex(w, mb, intra_pic, false)
}

/// One component of an Annex D (unrestricted) vector difference, Table D.3: "1" is zero; otherwise "0", the
/// bits of |v| below its leading one each followed by "1", then the sign and "0".
pub fn put_umv(w: &mut BitWriter, v: i32) {
    if v == 0 {
        w.put(1, 1);
        return;
    }
    w.put(0, 1);
    let n = v.unsigned_abs();
    let k = 31 - n.leading_zeros();
    for i in (0..k).rev() {
        w.put((n >> i) & 1, 1);
        w.put(1, 1);
    }
    w.put((v < 0) as u32, 1);
    w.put(0, 1);
}

/// `umv`: vector differences in the Annex D syntax (only the bit syntax; the reconstruction model does not
/// describe unrestricted vectors, so such pictures are for self-consistency checks only).
pub fn encode_mb_ex(w: &mut BitWriter, mb: &SymMb, intra_pic: bool, umv: bool) -> usize {
    match mb {
        SymMb::Raw(groups) => {
            for g in groups {
                w.put(g.0, g.1);
            }
            w.nbits
        }
        SymMb::NotCoded => {
            assert!(!intra_pic);
            w.put(1, 1);
            w.nbits
        }
        SymMb::Coded { kind, dquant, mvd, blocks } => {
            if !intra_pic {
                w.put(0, 1);
            }
            let cbpc = ((!blocks[4].events.is_empty()) as usize) << 1 | (!blocks[5].events.is_empty()) as usize;
            if intra_pic {
                assert!(kind.is_intra());
                w.code(MCBPC_I[(*kind == MbKind::IntraQ) as usize][cbpc]);
            } else {
                w.code(MCBPC_P[*kind as usize][cbpc]);
            }
            let mut pat = 0usize;
            for i in 0..4 {
                pat = (pat << 1) | (!blocks[i].events.is_empty()) as usize;
            }
            if !kind.is_intra() {
                pat ^= 15;
            }
            w.code(CBPY[pat]);
            if kind.has_q() {
                w.put(dquant_code(*dquant), 2);
            }
            if !kind.is_intra() {
                let n = if kind.four() { 4 } else { 1 };
                for v in mvd.iter().take(n) {
                    for c in 0..2 {
                        if v[c] == 99 {
                            // fault injection: thirteen zero bits are no MVD code
                            w.put(0, 13);
                        } else if umv {
                            put_umv(w, v[c]);
                        } else {
                            w.code(mvd_code(v[c]));
                        }
                    }
                }
            }
            let hdr_end = w.nbits;
            for b in blocks.iter() {
                encode_block(w, b);
            }
            hdr_end
        }
    }
}
