//! Reference reconstruction from a *symbolic* picture (never from bits):
//! dequantisation (6.2.1), zig-zag (Figure 14, generated algorithmically),
//! ideal IDCT in f64 (6.2.4 / Annex A), motion-vector prediction (6.1.1),
//! chroma vector derivation (6.1.1 / Table 9 and its 4-vector analogue F.2),
//! half-sample interpolation (6.1.2), edge extrapolation (D.1).
//!
//! Samples are produced as closed intervals [lo, hi]: lo == hi wherever the
//! value is exact; lo + 1 == hi only where the ideal IDCT output lies within
//! `tau` of a rounding boundary (see DESIGN.md "rounding-boundary tolerance").

use super::syntax::*;
use super::tables::MbKind;

#[derive(Clone, Debug, PartialEq)]
pub struct Planes {
    pub w: usize,
    pub h: usize,
    pub y: Vec<u8>,
    pub cb: Vec<u8>,
    pub cr: Vec<u8>,
}

impl Planes {
    pub fn cw(&self) -> usize {
        (self.w + 1) / 2
    }
    pub fn ch(&self) -> usize {
        (self.h + 1) / 2
    }
    pub fn new(w: usize, h: usize) -> Planes {
        let cw = (w + 1) / 2;
        let ch = (h + 1) / 2;
        Planes { w, h, y: vec![0; w * h], cb: vec![0; cw * ch], cr: vec![0; cw * ch] }
    }
}

#[derive(Clone, Debug)]
pub struct Recon {
    pub lo: Planes,
    pub hi: Planes,
    /// Largest tolerance window any sample of this picture was given.
    pub max_tau: f64,
    /// Reconstructed luma vectors per macroblock (half-sample units), for coverage.
    pub mvs: Vec<[[i32; 2]; 4]>,
    /// In-force quantiser after each macroblock.
    pub quants: Vec<u8>,
}

pub fn zigzag() -> [(usize, usize); 64] {
    // (u = horizontal frequency, v = vertical frequency) by scan position
    let mut out = [(0usize, 0usize); 64];
    let (mut x, mut y) = (0i32, 0i32);
    let mut up = true;
    for o in out.iter_mut() {
        *o = (x as usize, y as usize);
        if up {
            if x == 7 {
                y += 1;
                up = false;
            } else if y == 0 {
                x += 1;
                up = false;
            } else {
                x += 1;
                y -= 1;
            }
        } else if y == 7 {
            x += 1;
            up = true;
        } else if x == 0 {
            y += 1;
            up = true;
        } else {
            x -= 1;
            y += 1;
        }
    }
    out
}

/// 6.2.1: |REC| = Q(2|L|+1) for odd Q, Q(2|L|+1)-1 for even Q; sign of L; clipped to -2048..2047.
pub fn dequant(q: i32, level: i32) -> i32 {
    if level == 0 {
        return 0;
    }
    let mut m = q * (2 * level.abs() + 1);
    if q % 2 == 0 {
        m -= 1;
    }
    (if level < 0 { -m } else { m }).clamp(-2048, 2047)
}

/// Table 15: INTRADC code -> reconstruction level.
pub fn intradc_level(code: u8) -> Option<i32> {
    match code {
        0 | 128 => None,
        255 => Some(1024),
        c => Some(8 * c as i32),
    }
}

/// 5.3.6: quantiser after DQUANT, clipped to 1..31.
pub fn next_quant(q: u8, dquant: i8) -> u8 {
    (q as i32 + dquant as i32).clamp(1, 31) as u8
}

fn cos_table() -> [[f64; 8]; 8] {
    // c[x][u] = C(u) cos((2x+1) u pi / 16) / 2
    let mut t = [[0.0; 8]; 8];
    for x in 0..8 {
        for u in 0..8 {
            let cu = if u == 0 { std::f64::consts::FRAC_1_SQRT_2 } else { 1.0 };
            t[x][u] = cu * ((2 * x + 1) as f64 * u as f64 * std::f64::consts::PI / 16.0).cos() / 2.0;
        }
    }
    t
}

/// Ideal 8x8 inverse DCT. `f[v][u]` -> `out[y][x]`.
pub fn idct_f64(f: &[[f64; 8]; 8]) -> [[f64; 8]; 8] {
    thread_local! { static T: [[f64;8];8] = cos_table(); }
    T.with(|t| {
        let mut tmp = [[0.0; 8]; 8]; // tmp[v][x]
        for v in 0..8 {
            for x in 0..8 {
                let mut s = 0.0;
                for u in 0..8 {
                    s += t[x][u] * f[v][u];
                }
                tmp[v][x] = s;
            }
        }
        let mut out = [[0.0; 8]; 8];
        for y in 0..8 {
            for x in 0..8 {
                let mut s = 0.0;
                for v in 0..8 {
                    s += t[y][v] * tmp[v][x];
                }
                out[y][x] = s;
            }
        }
        out
    })
}

/// Coefficient matrix F[v][u] of a block, or Err if the block is not valid syntax
/// (run past coefficient 63, invalid INTRADC).
pub fn block_coefficients(b: &SymBlock, q: u8) -> Result<[[f64; 8]; 8], String> {
    thread_local! { static ZZ: [(usize,usize);64] = zigzag(); }
    let mut f = [[0.0; 8]; 8];
    let mut idx = 0usize;
    if let Some(dc) = b.intradc {
        f[0][0] = intradc_level(dc).ok_or("invalid INTRADC")? as f64;
        idx = 1;
    }
    ZZ.with(|zz| {
        for ev in &b.events {
            idx += ev.run as usize;
            if idx > 63 {
                return Err("run past coefficient 63".to_string());
            }
            let (u, v) = zz[idx];
            f[v][u] = dequant(q as i32, ev.level) as f64;
            idx += 1;
        }
        Ok(())
    })?;
    Ok(f)
}

pub fn tau(f: &[[f64; 8]; 8]) -> f64 {
    let s: f64 = f.iter().flatten().map(|v| v.abs()).sum();
    1e-4 + 1e-6 * s
}

/// Residual interval of one sample: ideal value rounded to nearest and clipped
/// to -256..255, widened only inside the tolerance window.
fn resid_interval(v: f64, t: f64) -> (i32, i32) {
    let lo = ((v - t + 0.5).floor() as i32).clamp(-256, 255);
    let hi = ((v + t + 0.5).floor() as i32).clamp(-256, 255);
    // ties: v exactly on k+0.5 gives lo = k (or k+1 at t=0 .. ) -- covered since t > 0
    (lo, hi)
}

pub fn median(a: i32, b: i32, c: i32) -> i32 {
    a.max(b).min(a.min(b).max(c))
}

/// Reduce a vector component into the restricted range [-16, 15.5] (units: half samples).
pub fn wrap_mv(v: i32) -> i32 {
    if v < -32 {
        v + 64
    } else if v > 31 {
        v - 64
    } else {
        v
    }
}

const ROUNDTAB16: [i32; 16] = [0, 0, 0, 1, 1, 1, 1, 1, 1, 1, 1, 1, 1, 1, 2, 2];

/// Chroma vector component from the sum of the four luma components (half-sample
/// units): sum/8 with the sixteenth-position rounding, symmetric in sign.
pub fn chroma_mv(sum: i32) -> i32 {
    let a = sum.abs();
    let r = ROUNDTAB16[(a % 16) as usize] + (a / 16) * 2;
    if sum < 0 {
        -r
    } else {
        r
    }
}

fn sample(p: &[u8], w: usize, h: usize, x: i32, y: i32) -> i32 {
    let xx = x.clamp(0, w as i32 - 1) as usize;
    let yy = y.clamp(0, h as i32 - 1) as usize;
    p[xx + yy * w] as i32
}

/// Motion-compensated prediction of one 8x8 block at (bx, by), cropped to the plane.
pub fn mc_block(dst: &mut [u8], refp: &[u8], w: usize, h: usize, bx: usize, by: usize, mv: [i32; 2]) {
    let fx = mv[0].div_euclid(2);
    let hx = mv[0].rem_euclid(2);
    let fy = mv[1].div_euclid(2);
    let hy = mv[1].rem_euclid(2);
    for j in 0..8 {
        for i in 0..8 {
            let (x, y) = (bx + i, by + j);
            if x >= w || y >= h {
                continue;
            }
            let (sx, sy) = (x as i32 + fx, y as i32 + fy);
            let a = sample(refp, w, h, sx, sy);
            let v = match (hx, hy) {
                (0, 0) => a,
                (1, 0) => (a + sample(refp, w, h, sx + 1, sy) + 1) / 2,
                (0, 1) => (a + sample(refp, w, h, sx, sy + 1) + 1) / 2,
                _ => (a + sample(refp, w, h, sx + 1, sy) + sample(refp, w, h, sx, sy + 1) + sample(refp, w, h, sx + 1, sy + 1) + 2) / 4,
            };
            dst[x + y * w] = v as u8;
        }
    }
}

/// Candidate predictors and median for block `blk` of macroblock `i` (6.1.1, Figures 10/11).
pub fn predict_mv(mvs: &[[[i32; 2]; 4]], cur: &[[i32; 2]; 4], i: usize, mbw: usize, blk: usize) -> [i32; 2] {
    let (col, row) = (i % mbw, i / mbw);
    let (c1, c2, c3);
    match blk {
        0 | 1 => {
            c1 = if blk == 1 {
                cur[0]
            } else if col == 0 {
                [0, 0]
            } else {
                mvs[i - 1][1]
            };
            if row == 0 {
                // rule 2: above is outside -> MV2 = MV3 = MV1; rule 3 afterwards
                c2 = c1;
                c3 = if col == mbw - 1 { [0, 0] } else { c1 };
            } else {
                c2 = mvs[i - mbw][blk + 2];
                c3 = if col == mbw - 1 { [0, 0] } else { mvs[i - mbw + 1][2] };
            }
        }
        2 => {
            c1 = if col == 0 { [0, 0] } else { mvs[i - 1][3] };
            c2 = cur[0];
            c3 = cur[1];
        }
        _ => {
            c1 = cur[2];
            c2 = cur[0];
            c3 = cur[1];
        }
    }
    [median(c1[0], c2[0], c3[0]), median(c1[1], c2[1], c3[1])]
}

/// Reconstruct a picture. `reference` must be given for pictures containing
/// inter / not-coded macroblocks; it must have the picture's dimensions.
pub fn reconstruct(pic: &SymPicture, reference: Option<&Planes>) -> Result<Recon, String> {
    let (w, h) = (pic.w, pic.h);
    let (mbw, mbh) = (pic.mbw(), pic.mbh());
    let (cw, ch) = ((w + 1) / 2, (h + 1) / 2);
    let mut pred = Planes::new(w, h);
    let mut lo = Planes::new(w, h);
    let mut hi = Planes::new(w, h);
    let mut mvs: Vec<[[i32; 2]; 4]> = Vec::with_capacity(mbw * mbh);
    let mut quants = Vec::with_capacity(mbw * mbh);
    let mut q = pic.quant();
    let mut max_tau = 0.0f64;
    if pic.mbs.len() > mbw * mbh {
        return Err("more macroblocks than the picture holds".into());
    }
    // pass 1: vectors + prediction
    let mut kinds: Vec<Option<MbKind>> = vec![];
    for i in 0..mbw * mbh {
        let mb = pic.mbs.get(i).cloned().unwrap_or(SymMb::NotCoded);
        let (col, row) = (i % mbw, i / mbw);
        let mut cur = [[0i32; 2]; 4];
        let kind = match &mb {
            SymMb::Raw(_) => return Err("picture contains raw fault-injection bits".into()),
            SymMb::NotCoded => None,
            SymMb::Coded { kind, .. } => Some(*kind),
        };
        if let SymMb::Coded { kind, mvd, .. } = &mb {
            if !kind.is_intra() {
                for blk in 0..4 {
                    if !kind.four() && blk > 0 {
                        cur[blk] = cur[0];
                        continue;
                    }
                    let p = predict_mv(&mvs, &cur, i, mbw, blk);
                    cur[blk] = [wrap_mv(p[0] + mvd[blk][0]), wrap_mv(p[1] + mvd[blk][1])];
                }
            }
        }
        let is_inter = kind.map(|k| !k.is_intra()).unwrap_or(true);
        if is_inter {
            let r = reference.ok_or("prediction needed but no reference")?;
            if r.w != w || r.h != h {
                return Err("reference has a different size".into());
            }
            for blk in 0..4 {
                mc_block(&mut pred.y, &r.y, w, h, col * 16 + (blk % 2) * 8, row * 16 + (blk / 2) * 8, cur[blk]);
            }
            let s = [cur[0][0] + cur[1][0] + cur[2][0] + cur[3][0], cur[0][1] + cur[1][1] + cur[2][1] + cur[3][1]];
            let cmv = [chroma_mv(s[0]), chroma_mv(s[1])];
            mc_block(&mut pred.cb, &r.cb, cw, ch, col * 8, row * 8, cmv);
            mc_block(&mut pred.cr, &r.cr, cw, ch, col * 8, row * 8, cmv);
        }
        mvs.push(cur);
        kinds.push(kind);
    }
    lo.y.copy_from_slice(&pred.y);
    lo.cb.copy_from_slice(&pred.cb);
    lo.cr.copy_from_slice(&pred.cr);
    hi.y.copy_from_slice(&pred.y);
    hi.cb.copy_from_slice(&pred.cb);
    hi.cr.copy_from_slice(&pred.cr);
    // pass 2: residuals
    for i in 0..mbw * mbh {
        let (col, row) = (i % mbw, i / mbw);
        if let Some(SymMb::Coded { kind, dquant, blocks, .. }) = pic.mbs.get(i) {
            if kind.has_q() {
                q = next_quant(q, *dquant);
            } else {
                q = q.clamp(1, 31);
            }
            for (bi, b) in blocks.iter().enumerate() {
                if kind.is_intra() != b.intradc.is_some() {
                    return Err("INTRADC presence does not match macroblock kind".into());
                }
                if b.intradc.is_none() && b.events.is_empty() {
                    continue;
                }
                let f = block_coefficients(b, q)?;
                let t = tau(&f);
                let r = idct_f64(&f);
                let (plane_lo, plane_hi, pw, ph, bx, by) = match bi {
                    0..=3 => (&mut lo.y, &mut hi.y, w, h, col * 16 + (bi % 2) * 8, row * 16 + (bi / 2) * 8),
                    4 => (&mut lo.cb, &mut hi.cb, cw, ch, col * 8, row * 8),
                    _ => (&mut lo.cr, &mut hi.cr, cw, ch, col * 8, row * 8),
                };
                let mut used = false;
                for y in 0..8 {
                    for x in 0..8 {
                        let (px, py) = (bx + x, by + y);
                        if px >= pw || py >= ph {
                            continue;
                        }
                        let (rl, rh) = resid_interval(r[y][x], t);
                        let p = plane_lo[px + py * pw] as i32;
                        plane_lo[px + py * pw] = (p + rl).clamp(0, 255) as u8;
                        plane_hi[px + py * pw] = (p + rh).clamp(0, 255) as u8;
                        used = true;
                    }
                }
                if used && t > max_tau {
                    max_tau = t;
                }
            }
        }
        quants.push(q);
    }
    let _ = kinds;
    Ok(Recon { lo, hi, max_tau, mvs, quants })
}

/// Compare decoded planes with a reconstruction. Returns (first mismatch
/// description, number of samples accepted only through the tolerance window).
pub fn compare(rec: &Recon, y: &[u8], cb: &[u8], cr: &[u8]) -> (Option<String>, u64) {
    let mut tol = 0u64;
    for (name, lo, hi, got, w) in [("Y", &rec.lo.y, &rec.hi.y, y, rec.lo.w), ("Cb", &rec.lo.cb, &rec.hi.cb, cb, rec.lo.cw()), ("Cr", &rec.lo.cr, &rec.hi.cr, cr, rec.lo.cw())] {
        if got.len() != lo.len() {
            return (Some(format!("plane {} length {} expected {}", name, got.len(), lo.len())), tol);
        }
        for i in 0..got.len() {
            let g = got[i];
            if g < lo[i] || g > hi[i] {
                return (Some(format!("plane {} sample ({},{}) = {} expected {}..={}", name, i % w.max(1), i / w.max(1), g, lo[i], hi[i])), tol);
            }
            if lo[i] != hi[i] {
                tol += 1;
            }
        }
    }
    (None, tol)
}
