//! Scalar reference for the H.263 Annex J deblocking edge filter, applied edge
//! by edge: all horizontal block edges first, then all vertical ones (J.3).

/// Table J.2/H.263: STRENGTH as a function of QUANT (index 1..31; [0] unused).
pub const TABLE_J2: [u8; 32] = [0, 1, 1, 2, 2, 3, 3, 4, 4, 4, 5, 5, 6, 6, 7, 7, 7, 8, 8, 8, 9, 9, 9, 10, 10, 10, 11, 11, 11, 12, 12, 12];

/// Figure J.2: UpDownRamp(x, STRENGTH) = SIGN(x) * MAX(0, abs(x) - MAX(0, 2*(abs(x) - STRENGTH)))
fn up_down_ramp(x: i32, s: i32) -> i32 {
    x.signum() * 0.max(x.abs() - 0.max(2 * (x.abs() - s)))
}

/// One application of the filter to samples A, B | C, D. "/" truncates toward zero.
pub fn filter(a: u8, b: u8, c: u8, d: u8, strength: u8) -> (u8, u8, u8, u8) {
    let (a, b, c, d, s) = (a as i32, b as i32, c as i32, d as i32, strength as i32);
    let dd = (a - 4 * b + 4 * c - d) / 8;
    let d1 = up_down_ramp(dd, s);
    let lim = (d1 / 2).abs();
    let d2 = ((a - d) / 4).clamp(-lim, lim);
    ((a - d2) as u8, (b + d1).clamp(0, 255) as u8, (c - d1).clamp(0, 255) as u8, (d + d2) as u8)
}

/// Whole-image reference. `data.len()` must be a multiple of `width` (>= 1).
pub fn deblock(data: &[u8], width: usize, strength: u8) -> Vec<u8> {
    let mut out = data.to_vec();
    let height = data.len() / width;
    // horizontal edges: between rows e-1 and e, e = 8, 16, ...; samples at rows e-2..e+1
    let mut e = 8;
    while e + 1 < height {
        for x in 0..width {
            let (a, b, c, d) = filter(out[(e - 2) * width + x], out[(e - 1) * width + x], out[e * width + x], out[(e + 1) * width + x], strength);
            out[(e - 2) * width + x] = a;
            out[(e - 1) * width + x] = b;
            out[e * width + x] = c;
            out[(e + 1) * width + x] = d;
        }
        e += 8;
    }
    // vertical edges
    let mut e = 8;
    while e + 1 < width {
        for y in 0..height {
            let r = y * width;
            let (a, b, c, d) = filter(out[r + e - 2], out[r + e - 1], out[r + e], out[r + e + 1], strength);
            out[r + e - 2] = a;
            out[r + e - 1] = b;
            out[r + e] = c;
            out[r + e + 1] = d;
        }
        e += 8;
    }
    out
}
