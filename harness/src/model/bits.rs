//! MSB-first bit writer and a plain bit-vector view of a byte string.

#[derive(Clone, Default, Debug)]
pub struct BitWriter {
    pub bytes: Vec<u8>,
    pub nbits: usize,
}

impl BitWriter {
    pub fn new() -> Self {
        Self::default()
    }
    /// Append the low `n` bits of `val`, most significant first.
    pub fn put(&mut self, val: u32, n: u32) {
        for i in (0..n).rev() {
            self.bit(((val >> i) & 1) as u8);
        }
    }
    pub fn bit(&mut self, b: u8) {
        if self.nbits % 8 == 0 {
            self.bytes.push(0);
        }
        let last = self.bytes.len() - 1;
        self.bytes[last] |= (b & 1) << (7 - (self.nbits % 8));
        self.nbits += 1;
    }
    pub fn code(&mut self, c: (u32, u32)) {
        self.put(c.0, c.1)
    }
    /// Pad with zero bits to the next byte boundary; returns how many were added.
    pub fn align(&mut self) -> usize {
        let mut k = 0;
        while self.nbits % 8 != 0 {
            self.bit(0);
            k += 1;
        }
        k
    }
    pub fn append(&mut self, o: &BitWriter) {
        for i in 0..o.nbits {
            self.bit((o.bytes[i / 8] >> (7 - i % 8)) & 1);
        }
    }
}

/// Bit `i` (MSB-first) of `data`.
pub fn bit_at(data: &[u8], i: usize) -> u8 {
    (data[i / 8] >> (7 - i % 8)) & 1
}

/// `n` (<= 64) bits starting at bit `pos`, or None if fewer remain.
pub fn bits_at(data: &[u8], pos: usize, n: u32) -> Option<u64> {
    if pos + n as usize > data.len() * 8 {
        return None;
    }
    let mut v = 0u64;
    for i in 0..n as usize {
        v = (v << 1) | bit_at(data, pos + i) as u64;
    }
    Some(v)
}
