//! Variable-length code tables of ITU-T H.263, typed in from the standard
//! (Tables 7, 8, 13, 14, 16) as (code, length) pairs. Independent of the
//! repository's decode trees; `self_check` validates prefix-freeness.

/// Macroblock kinds in the order of the H.263 "MB type" numbers 0..5.
#[derive(Clone, Copy, Debug, PartialEq, Eq, Hash)]
pub enum MbKind {
    Inter = 0,
    InterQ = 1,
    Inter4V = 2,
    Intra = 3,
    IntraQ = 4,
    Inter4VQ = 5,
}

impl MbKind {
    pub const ALL: [MbKind; 6] = [MbKind::Inter, MbKind::InterQ, MbKind::Inter4V, MbKind::Intra, MbKind::IntraQ, MbKind::Inter4VQ];
    pub fn is_intra(self) -> bool {
        matches!(self, MbKind::Intra | MbKind::IntraQ)
    }
    pub fn has_q(self) -> bool {
        matches!(self, MbKind::InterQ | MbKind::IntraQ | MbKind::Inter4VQ)
    }
    pub fn four(self) -> bool {
        matches!(self, MbKind::Inter4V | MbKind::Inter4VQ)
    }
    pub fn name(self) -> &'static str {
        match self {
            MbKind::Inter => "INTER",
            MbKind::InterQ => "INTER+Q",
            MbKind::Inter4V => "INTER4V",
            MbKind::Intra => "INTRA",
            MbKind::IntraQ => "INTRA+Q",
            MbKind::Inter4VQ => "INTER4V+Q",
        }
    }
}

/// Table 7/H.263: MCBPC for I-pictures. Index [intra=0, intra+q=1][cbpc], cbpc = (Cb<<1)|Cr.
pub const MCBPC_I: [[(u32, u32); 4]; 2] = [
    [(0b1, 1), (0b001, 3), (0b010, 3), (0b011, 3)],
    [(0b0001, 4), (0b000001, 6), (0b000010, 6), (0b000011, 6)],
];

/// MCBPC stuffing codeword (both tables): 0000 0000 1.
pub const MCBPC_STUFFING: (u32, u32) = (0b000000001, 9);

/// Table 8/H.263: MCBPC for P-pictures. Index [MB type 0..5][cbpc].
pub const MCBPC_P: [[(u32, u32); 4]; 6] = [
    // type 0 INTER
    [(0b1, 1), (0b0011, 4), (0b0010, 4), (0b000101, 6)],
    // type 1 INTER+Q
    [(0b011, 3), (0b0000111, 7), (0b0000110, 7), (0b000000101, 9)],
    // type 2 INTER4V
    [(0b010, 3), (0b0000101, 7), (0b0000100, 7), (0b00000101, 8)],
    // type 3 INTRA
    [(0b00011, 5), (0b00000100, 8), (0b00000011, 8), (0b0000011, 7)],
    // type 4 INTRA+Q
    [(0b000100, 6), (0b000000100, 9), (0b000000011, 9), (0b000000010, 9)],
    // type 5 INTER4V+Q
    [(0b00000000010, 11), (0b0000000001100, 13), (0b0000000001110, 13), (0b0000000001111, 13)],
];

/// Table 13/H.263: CBPY, indexed by the INTRA pattern (block1<<3 | block2<<2 | block3<<1 | block4).
/// For INTER macroblocks the pattern is complemented before look-up.
pub const CBPY: [(u32, u32); 16] = [
    (0b0011, 4),
    (0b00101, 5),
    (0b00100, 5),
    (0b1001, 4),
    (0b00011, 5),
    (0b0111, 4),
    (0b000010, 6),
    (0b1011, 4),
    (0b00010, 5),
    (0b000011, 6),
    (0b0101, 4),
    (0b1010, 4),
    (0b0100, 4),
    (0b1000, 4),
    (0b0110, 4),
    (0b11, 2),
];

/// Table 14/H.263: MVD magnitude codes without the final sign bit, indexed by
/// |value| in half-sample units 0..=32. Index 0 is the complete 1-bit code; for
/// the others a sign bit follows (0 = positive). Magnitude 32 exists only
/// with sign 1 (the vector -16 / difference +16 line).
pub const MVD_MAG: [(u32, u32); 33] = [
    (1, 1),
    (1, 2),
    (1, 3),
    (1, 4),
    (3, 6),
    (5, 7),
    (4, 7),
    (3, 7),
    (11, 9),
    (10, 9),
    (9, 9),
    (17, 10),
    (16, 10),
    (15, 10),
    (14, 10),
    (13, 10),
    (12, 10),
    (11, 10),
    (10, 10),
    (9, 10),
    (8, 10),
    (7, 10),
    (6, 10),
    (5, 10),
    (4, 10),
    (7, 11),
    (6, 11),
    (5, 11),
    (4, 11),
    (3, 11),
    (2, 11),
    (3, 12),
    (2, 12),
];

/// Complete MVD codeword for a differential `d` in half-sample units, -32..=31.
pub fn mvd_code(d: i32) -> (u32, u32) {
    assert!((-32..=31).contains(&d));
    let m = d.unsigned_abs() as usize;
    let (c, n) = MVD_MAG[m];
    if m == 0 {
        (c, n)
    } else {
        ((c << 1) | (d < 0) as u32, n + 1)
    }
}

/// Table 16/H.263: TCOEF. (last, run, level, code, length) without the sign bit.
pub const TCOEF: [(u8, u8, u8, u32, u32); 102] = [
    // LAST = 0
    (0, 0, 1, 0x2, 2),
    (0, 0, 2, 0xf, 4),
    (0, 0, 3, 0x15, 6),
    (0, 0, 4, 0x17, 7),
    (0, 0, 5, 0x1f, 8),
    (0, 0, 6, 0x25, 9),
    (0, 0, 7, 0x24, 9),
    (0, 0, 8, 0x21, 10),
    (0, 0, 9, 0x20, 10),
    (0, 0, 10, 0x7, 11),
    (0, 0, 11, 0x6, 11),
    (0, 0, 12, 0x20, 11),
    (0, 1, 1, 0x6, 3),
    (0, 1, 2, 0x14, 6),
    (0, 1, 3, 0x1e, 8),
    (0, 1, 4, 0xf, 10),
    (0, 1, 5, 0x21, 11),
    (0, 1, 6, 0x50, 12),
    (0, 2, 1, 0xe, 4),
    (0, 2, 2, 0x1d, 8),
    (0, 2, 3, 0xe, 10),
    (0, 2, 4, 0x51, 12),
    (0, 3, 1, 0xd, 5),
    (0, 3, 2, 0x23, 9),
    (0, 3, 3, 0xd, 10),
    (0, 4, 1, 0xc, 5),
    (0, 4, 2, 0x22, 9),
    (0, 4, 3, 0x52, 12),
    (0, 5, 1, 0xb, 5),
    (0, 5, 2, 0xc, 10),
    (0, 5, 3, 0x53, 12),
    (0, 6, 1, 0x13, 6),
    (0, 6, 2, 0xb, 10),
    (0, 6, 3, 0x54, 12),
    (0, 7, 1, 0x12, 6),
    (0, 7, 2, 0xa, 10),
    (0, 8, 1, 0x11, 6),
    (0, 8, 2, 0x9, 10),
    (0, 9, 1, 0x10, 6),
    (0, 9, 2, 0x8, 10),
    (0, 10, 1, 0x16, 7),
    (0, 10, 2, 0x55, 12),
    (0, 11, 1, 0x15, 7),
    (0, 12, 1, 0x14, 7),
    (0, 13, 1, 0x1c, 8),
    (0, 14, 1, 0x1b, 8),
    (0, 15, 1, 0x21, 9),
    (0, 16, 1, 0x20, 9),
    (0, 17, 1, 0x1f, 9),
    (0, 18, 1, 0x1e, 9),
    (0, 19, 1, 0x1d, 9),
    (0, 20, 1, 0x1c, 9),
    (0, 21, 1, 0x1b, 9),
    (0, 22, 1, 0x1a, 9),
    (0, 23, 1, 0x22, 11),
    (0, 24, 1, 0x23, 11),
    (0, 25, 1, 0x56, 12),
    (0, 26, 1, 0x57, 12),
    // LAST = 1
    (1, 0, 1, 0x7, 4),
    (1, 0, 2, 0x19, 9),
    (1, 0, 3, 0x5, 11),
    (1, 1, 1, 0xf, 6),
    (1, 1, 2, 0x4, 11),
    (1, 2, 1, 0xe, 6),
    (1, 3, 1, 0xd, 6),
    (1, 4, 1, 0xc, 6),
    (1, 5, 1, 0x13, 7),
    (1, 6, 1, 0x12, 7),
    (1, 7, 1, 0x11, 7),
    (1, 8, 1, 0x10, 7),
    (1, 9, 1, 0x1a, 8),
    (1, 10, 1, 0x19, 8),
    (1, 11, 1, 0x18, 8),
    (1, 12, 1, 0x17, 8),
    (1, 13, 1, 0x16, 8),
    (1, 14, 1, 0x15, 8),
    (1, 15, 1, 0x14, 8),
    (1, 16, 1, 0x13, 8),
    (1, 17, 1, 0x18, 9),
    (1, 18, 1, 0x17, 9),
    (1, 19, 1, 0x16, 9),
    (1, 20, 1, 0x15, 9),
    (1, 21, 1, 0x14, 9),
    (1, 22, 1, 0x13, 9),
    (1, 23, 1, 0x12, 9),
    (1, 24, 1, 0x11, 9),
    (1, 25, 1, 0x7, 10),
    (1, 26, 1, 0x6, 10),
    (1, 27, 1, 0x5, 10),
    (1, 28, 1, 0x4, 10),
    (1, 29, 1, 0x24, 11),
    (1, 30, 1, 0x25, 11),
    (1, 31, 1, 0x26, 11),
    (1, 32, 1, 0x27, 11),
    (1, 33, 1, 0x58, 12),
    (1, 34, 1, 0x59, 12),
    (1, 35, 1, 0x5a, 12),
    (1, 36, 1, 0x5b, 12),
    (1, 37, 1, 0x5c, 12),
    (1, 38, 1, 0x5d, 12),
    (1, 39, 1, 0x5e, 12),
    (1, 40, 1, 0x5f, 12),
];

/// TCOEF escape code: 0000 011.
pub const TCOEF_ESCAPE: (u32, u32) = (0b0000011, 7);

/// Short code for (last, run, |level|), if Table 16 has one.
pub fn tcoef_short(last: bool, run: u8, mag: u32) -> Option<(u32, u32)> {
    TCOEF.iter().find(|e| e.0 == last as u8 && e.1 == run && e.2 as u32 == mag).map(|e| (e.3, e.4))
}

fn prefix_free(codes: &[(u32, u32)]) -> Result<f64, String> {
    let mut kraft = 0.0;
    for (i, a) in codes.iter().enumerate() {
        if a.1 == 0 || a.1 > 16 || (a.0 >> a.1) != 0 {
            return Err(format!("bad code {:?}", a));
        }
        kraft += 0.5f64.powi(a.1 as i32);
        for (j, b) in codes.iter().enumerate() {
            if i != j && a.1 <= b.1 && (b.0 >> (b.1 - a.1)) == a.0 {
                return Err(format!("{:?} is a prefix of {:?}", a, b));
            }
        }
    }
    Ok(kraft)
}

/// Structural self-check of the typed-in tables (run at start-up).
pub fn self_check() -> Result<(), String> {
    let mut v: Vec<(u32, u32)> = MCBPC_I.iter().flatten().copied().collect();
    v.push(MCBPC_STUFFING);
    prefix_free(&v).map_err(|e| format!("MCBPC_I: {}", e))?;
    let mut v: Vec<(u32, u32)> = MCBPC_P.iter().flatten().copied().collect();
    v.push(MCBPC_STUFFING);
    prefix_free(&v).map_err(|e| format!("MCBPC_P: {}", e))?;
    prefix_free(&CBPY).map_err(|e| format!("CBPY: {}", e))?;
    let v: Vec<(u32, u32)> = (-32..=31).map(mvd_code).collect();
    prefix_free(&v).map_err(|e| format!("MVD: {}", e))?;
    let mut v: Vec<(u32, u32)> = TCOEF.iter().map(|e| (e.3, e.4)).collect();
    v.push(TCOEF_ESCAPE);
    prefix_free(&v).map_err(|e| format!("TCOEF: {}", e))?;
    // (last,run,level) triples must be unique
    for (i, a) in TCOEF.iter().enumerate() {
        for b in TCOEF.iter().skip(i + 1) {
            if (a.0, a.1, a.2) == (b.0, b.1, b.2) {
                return Err(format!("TCOEF duplicate event {:?}", a));
            }
        }
    }
    Ok(())
}
