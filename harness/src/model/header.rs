//! Picture-header records for Sorenson Spark and ITU-T H.263 clause 5.1,
//! their bit encoders, and the field-level "view" a correct parser must report.
//! Written from the standard's field list (Figures 7 and 8, clauses 5.1.1-5.1.25).

use super::bits::{bits_at, BitWriter};

// ----------------------------------------------------------------------------------------
// Sorenson Spark
// ----------------------------------------------------------------------------------------

#[derive(Clone, Debug, PartialEq)]
pub enum SorSize {
    /// size code 0: 8-bit width and height follow
    Custom8(u16, u16),
    /// size code 1: 16-bit width and height follow
    Custom16(u16, u16),
    /// size codes 2..6
    Cif,
    Qcif,
    Sqcif,
    S320x240,
    S160x120,
    /// size code 7 (reserved)
    Reserved7,
}

impl SorSize {
    pub fn code(&self) -> u32 {
        match self {
            SorSize::Custom8(..) => 0,
            SorSize::Custom16(..) => 1,
            SorSize::Cif => 2,
            SorSize::Qcif => 3,
            SorSize::Sqcif => 4,
            SorSize::S320x240 => 5,
            SorSize::S160x120 => 6,
            SorSize::Reserved7 => 7,
        }
    }
    pub fn dims(&self) -> Option<(u16, u16)> {
        Some(match self {
            SorSize::Custom8(w, h) | SorSize::Custom16(w, h) => (*w, *h),
            SorSize::Cif => (352, 288),
            SorSize::Qcif => (176, 144),
            SorSize::Sqcif => (128, 96),
            SorSize::S320x240 => (320, 240),
            SorSize::S160x120 => (160, 120),
            SorSize::Reserved7 => return None,
        })
    }
    /// Smallest encoding for a given size.
    pub fn for_dims(w: u16, h: u16, prefer_fixed: bool) -> SorSize {
        if prefer_fixed {
            match (w, h) {
                (352, 288) => return SorSize::Cif,
                (176, 144) => return SorSize::Qcif,
                (128, 96) => return SorSize::Sqcif,
                (320, 240) => return SorSize::S320x240,
                (160, 120) => return SorSize::S160x120,
                _ => {}
            }
        }
        if w < 256 && h < 256 {
            SorSize::Custom8(w, h)
        } else {
            SorSize::Custom16(w, h)
        }
    }
}

#[derive(Clone, Debug, PartialEq)]
pub struct SorHeader {
    pub version: u8, // 5 bits
    pub tr: u8,
    pub size: SorSize,
    /// 0 = I, 1 = P, 2 = disposable P, 3 = reserved
    pub ptype: u8,
    pub deblock: bool,
    pub quant: u8, // 5 bits
    pub pei: Vec<u8>,
}

impl SorHeader {
    pub fn encode(&self, w: &mut BitWriter) {
        w.put(1, 17);
        w.put(self.version as u32, 5);
        w.put(self.tr as u32, 8);
        w.put(self.size.code(), 3);
        match self.size {
            SorSize::Custom8(a, b) => {
                w.put(a as u32, 8);
                w.put(b as u32, 8);
            }
            SorSize::Custom16(a, b) => {
                w.put(a as u32, 16);
                w.put(b as u32, 16);
            }
            _ => {}
        }
        w.put(self.ptype as u32, 2);
        w.put(self.deblock as u32, 1);
        w.put(self.quant as u32, 5);
        for b in &self.pei {
            w.put(1, 1);
            w.put(*b as u32, 8);
        }
        w.put(0, 1);
    }
    pub fn view(&self) -> HeaderView {
        HeaderView {
            version: Some(self.version),
            tr: self.tr as u16,
            format: Some(match self.size.dims() {
                Some((w, h)) => match self.size {
                    SorSize::Cif => FmtView::Std("FullCif"),
                    SorSize::Qcif => FmtView::Std("QuarterCif"),
                    SorSize::Sqcif => FmtView::Std("SubQcif"),
                    _ => FmtView::Custom { par: "Square".into(), w, h },
                },
                None => FmtView::Std("Reserved"),
            }),
            options: if self.deblock { vec!["USE_DEBLOCKER"] } else { vec![] },
            has_plus: false,
            has_opp: false,
            ptype: match self.ptype {
                0 => "IFrame".into(),
                1 => "PFrame".into(),
                2 => "DisposablePFrame".into(),
                r => format!("Reserved({})", r),
            },
            mvrange: Some("Unlimited"),
            sss: None,
            layer: None,
            rpsmf: None,
            trp: None,
            quant: self.quant,
            cpm: None,
            trb: None,
            dbq: None,
            extra: self.pei.clone(),
        }
    }
}

// ----------------------------------------------------------------------------------------
// Standard H.263
// ----------------------------------------------------------------------------------------

#[derive(Clone, Debug, PartialEq)]
pub struct PlusHeader {
    pub ufep: u8, // 3 bits; 0 and 1 are defined
    // OPPTYPE (present iff ufep == 1)
    pub src_fmt: u8, // 3 bits; 6 = custom
    pub custom_pcf: bool,
    pub umv: bool,
    pub sac: bool,
    pub ap: bool,
    pub aic: bool,
    pub df: bool,
    pub ss: bool,
    pub rps: bool,
    pub isd: bool,
    pub aiv: bool,
    pub mq: bool,
    // MPPTYPE
    pub ptype: u8, // 3 bits
    pub rpr: bool,
    pub rru: bool,
    pub rtype: bool,
    // followers (values used when the field is present)
    pub par: u8,   // 4 bits
    pub pwi: u16,  // 9 bits
    pub phi: u16,  // 9 bits
    pub epar: (u8, u8),
    pub cpcfc: u8,
    pub etr: u8,   // 2 bits
    pub uui_unlimited: bool, // false: "1" (Extended), true: "01" (Unlimited)
    pub sss: u8,   // 2 bits, first bit = rectangular slices, second = arbitrary order
    pub elnum: u8,
    pub rlnum: u8,
    pub rpsmf: u8, // 3 bits
    pub trp: Option<u16>,
}

#[derive(Clone, Debug, PartialEq)]
pub struct StdHeader {
    pub tr: u8,
    pub split: bool,
    pub doc: bool,
    pub freeze: bool,
    /// PTYPE bits 6-8 (ignored when `plus` is set: then 111 is written)
    pub fmt: u8,
    /// PTYPE bit 9: false = INTRA, true = INTER
    pub inter: bool,
    pub umv: bool,
    pub sac: bool,
    pub ap: bool,
    pub pb: bool,
    pub plus: Option<PlusHeader>,
    pub quant: u8,
    pub cpm: Option<u8>,
    pub trb: u8,
    pub dbq: u8,
    pub pei: Vec<u8>,
}

/// Modes carried over from the previous header (relevant when UFEP = 0).
#[derive(Clone, Debug, Default, PartialEq)]
pub struct Inherited {
    /// OPPTYPE-carried option names in force after the previous picture header
    pub opp_options: Vec<&'static str>,
    pub custom_pcf: bool,
}

/// Named bit spans of an encoded header, so that mutators can flip a specific
/// marker bit or field.
pub type Spans = Vec<(&'static str, usize, usize)>;

fn span(spans: &mut Spans, name: &'static str, w: &BitWriter, start: usize) {
    spans.push((name, start, w.nbits - start));
}

pub const STD_FMT_NAMES: [&str; 8] = ["forbidden", "SubQcif", "QuarterCif", "FullCif", "FourCif", "SixteenCif", "Reserved", "ext"];

impl StdHeader {
    pub fn baseline(tr: u8, fmt: u8, inter: bool, quant: u8) -> StdHeader {
        StdHeader { tr, split: false, doc: false, freeze: false, fmt, inter, umv: false, sac: false, ap: false, pb: false, plus: None, quant, cpm: None, trb: 0, dbq: 0, pei: vec![] }
    }
    fn pcf_in_use(&self, inh: &Inherited) -> bool {
        match &self.plus {
            Some(p) if p.ufep == 1 => p.custom_pcf,
            Some(_) => inh.custom_pcf,
            None => false,
        }
    }
    fn rps_in_use(&self, inh: &Inherited) -> bool {
        match &self.plus {
            Some(p) if p.ufep == 1 => p.rps,
            Some(_) => inh.opp_options.contains(&"REFERENCE_PICTURE_SELECTION"),
            None => false,
        }
    }
    fn is_pb(&self) -> bool {
        match &self.plus {
            Some(p) => p.ptype == 2,
            None => self.pb,
        }
    }
    pub fn encode(&self, w: &mut BitWriter, scal: bool, inh: &Inherited) -> Spans {
        let mut sp: Spans = vec![];
        let s = w.nbits;
        w.put(1, 17);
        w.put(0, 5);
        span(&mut sp, "PSC", w, s);
        let s = w.nbits;
        w.put(self.tr as u32, 8);
        span(&mut sp, "TR", w, s);
        let s = w.nbits;
        w.put(1, 1);
        span(&mut sp, "PTYPE.marker1", w, s);
        let s = w.nbits;
        w.put(0, 1);
        span(&mut sp, "PTYPE.marker2", w, s);
        w.put(self.split as u32, 1);
        w.put(self.doc as u32, 1);
        w.put(self.freeze as u32, 1);
        match &self.plus {
            None => {
                w.put(self.fmt as u32, 3);
                w.put(self.inter as u32, 1);
                w.put(self.umv as u32, 1);
                w.put(self.sac as u32, 1);
                w.put(self.ap as u32, 1);
                w.put(self.pb as u32, 1);
            }
            Some(p) => {
                w.put(7, 3);
                let s = w.nbits;
                w.put(p.ufep as u32, 3);
                span(&mut sp, "UFEP", w, s);
                if p.ufep == 1 {
                    w.put(p.src_fmt as u32, 3);
                    for b in [p.custom_pcf, p.umv, p.sac, p.ap, p.aic, p.df, p.ss, p.rps, p.isd, p.aiv, p.mq] {
                        w.put(b as u32, 1);
                    }
                    let s = w.nbits;
                    w.put(1, 1);
                    span(&mut sp, "OPPTYPE.marker15", w, s);
                    let s = w.nbits;
                    w.put(0, 3);
                    span(&mut sp, "OPPTYPE.marker16-18", w, s);
                }
                w.put(p.ptype as u32, 3);
                w.put(p.rpr as u32, 1);
                w.put(p.rru as u32, 1);
                w.put(p.rtype as u32, 1);
                let s = w.nbits;
                w.put(0, 2);
                span(&mut sp, "MPPTYPE.marker7-8", w, s);
                let s = w.nbits;
                w.put(1, 1);
                span(&mut sp, "MPPTYPE.marker9", w, s);
                // CPM / PSBI directly after PLUSPTYPE
                match self.cpm {
                    Some(id) => {
                        w.put(1, 1);
                        w.put(id as u32, 2);
                    }
                    None => w.put(0, 1),
                }
                if p.ufep == 1 && p.src_fmt == 6 {
                    w.put(p.par as u32, 4);
                    w.put(p.pwi as u32, 9);
                    let s = w.nbits;
                    w.put(1, 1);
                    span(&mut sp, "CPFMT.marker", w, s);
                    w.put(p.phi as u32, 9);
                    if p.par == 15 {
                        w.put(p.epar.0 as u32, 8);
                        w.put(p.epar.1 as u32, 8);
                    }
                }
                if p.ufep == 1 && p.custom_pcf {
                    w.put(p.cpcfc as u32, 8);
                }
                if self.pcf_in_use(inh) {
                    w.put(p.etr as u32, 2);
                }
                if p.ufep == 1 && p.umv {
                    if p.uui_unlimited {
                        w.put(0b01, 2);
                    } else {
                        w.put(1, 1);
                    }
                }
                if p.ufep == 1 && p.ss {
                    w.put(p.sss as u32, 2);
                }
                if scal {
                    w.put(p.elnum as u32, 4);
                    if p.ufep == 1 {
                        w.put(p.rlnum as u32, 4);
                    }
                }
                if p.ufep == 1 && p.rps {
                    w.put(p.rpsmf as u32, 3);
                }
                if self.rps_in_use(inh) {
                    match p.trp {
                        Some(t) => {
                            w.put(1, 1);
                            w.put(t as u32, 10);
                        }
                        None => w.put(0, 1),
                    }
                    // BCI = "01": no back-channel message
                    w.put(0b01, 2);
                }
            }
        }
        let s = w.nbits;
        w.put(self.quant as u32, 5);
        span(&mut sp, "PQUANT", w, s);
        if self.plus.is_none() {
            match self.cpm {
                Some(id) => {
                    w.put(1, 1);
                    w.put(id as u32, 2);
                }
                None => w.put(0, 1),
            }
        }
        if self.is_pb() {
            if self.pcf_in_use(inh) {
                w.put(self.trb as u32, 5);
            } else {
                w.put((self.trb & 7) as u32, 3);
            }
            w.put(self.dbq as u32, 2);
        }
        for b in &self.pei {
            w.put(1, 1);
            w.put(*b as u32, 8);
        }
        w.put(0, 1);
        sp
    }

    /// OPPTYPE-carried option names in force after this header.
    pub fn opp_options_after(&self, inh: &Inherited) -> Vec<&'static str> {
        match &self.plus {
            Some(p) if p.ufep == 1 => {
                let mut v = vec![];
                for (b, n) in [
                    (p.umv, "UNRESTRICTED_MOTION_VECTORS"),
                    (p.sac, "SYNTAX_BASED_ARITHMETIC_CODING"),
                    (p.ap, "ADVANCED_PREDICTION"),
                    (p.aic, "ADVANCED_INTRA_CODING"),
                    (p.df, "DEBLOCKING_FILTER"),
                    (p.ss, "SLICE_STRUCTURED"),
                    (p.rps, "REFERENCE_PICTURE_SELECTION"),
                    (p.isd, "INDEPENDENT_SEGMENT_DECODING"),
                    (p.aiv, "ALTERNATIVE_INTER_VLC"),
                    (p.mq, "MODIFIED_QUANTIZATION"),
                ] {
                    if b {
                        v.push(n);
                    }
                }
                v
            }
            Some(_) => inh.opp_options.clone(),
            None => {
                let mut v = vec![];
                for (b, n) in [(self.umv, "UNRESTRICTED_MOTION_VECTORS"), (self.sac, "SYNTAX_BASED_ARITHMETIC_CODING"), (self.ap, "ADVANCED_PREDICTION")] {
                    if b {
                        v.push(n);
                    }
                }
                v
            }
        }
    }
    pub fn inherited_after(&self, inh: &Inherited) -> Inherited {
        Inherited { opp_options: self.opp_options_after(inh), custom_pcf: self.pcf_in_use(inh) }
    }

    /// Declared size, if this header carries one.
    pub fn dims(&self) -> Option<(u16, u16)> {
        let std = |f: u8| match f {
            1 => Some((128, 96)),
            2 => Some((176, 144)),
            3 => Some((352, 288)),
            4 => Some((704, 576)),
            5 => Some((1408, 1152)),
            _ => None,
        };
        match &self.plus {
            None => std(self.fmt),
            Some(p) if p.ufep == 1 => {
                if p.src_fmt == 6 {
                    Some(((p.pwi + 1) * 4, p.phi * 4))
                } else {
                    std(p.src_fmt)
                }
            }
            Some(_) => None,
        }
    }

    /// What a correct parser reports for this header.
    pub fn view(&self, scal: bool, inh: &Inherited) -> HeaderView {
        let mut options: Vec<&'static str> = vec![];
        if self.split {
            options.push("USE_SPLIT_SCREEN");
        }
        if self.doc {
            options.push("USE_DOCUMENT_CAMERA");
        }
        if self.freeze {
            options.push("RELEASE_FULL_PICTURE_FREEZE");
        }
        options.extend(self.opp_options_after(inh));
        let std_name = |f: u8| -> FmtView {
            match f {
                1 => FmtView::Std("SubQcif"),
                2 => FmtView::Std("QuarterCif"),
                3 => FmtView::Std("FullCif"),
                4 => FmtView::Std("FourCif"),
                5 => FmtView::Std("SixteenCif"),
                _ => FmtView::Std("Reserved"),
            }
        };
        let mut v = HeaderView {
            version: None,
            tr: self.tr as u16,
            format: None,
            options: vec![],
            has_plus: self.plus.is_some(),
            has_opp: false,
            ptype: String::new(),
            mvrange: None,
            sss: None,
            layer: None,
            rpsmf: None,
            trp: None,
            quant: self.quant,
            cpm: self.cpm,
            trb: None,
            dbq: None,
            extra: self.pei.clone(),
        };
        match &self.plus {
            None => {
                v.format = Some(std_name(self.fmt));
                v.ptype = if self.pb { "PbFrame".into() } else if self.inter { "PFrame".into() } else { "IFrame".into() };
            }
            Some(p) => {
                v.has_opp = p.ufep == 1;
                if p.ufep == 1 {
                    v.format = Some(if p.src_fmt == 6 {
                        FmtView::Custom {
                            par: match p.par {
                                1 => "Square".into(),
                                2 => "Par12_11".into(),
                                3 => "Par10_11".into(),
                                4 => "Par16_11".into(),
                                5 => "Par40_33".into(),
                                15 => format!("Extended {{ par_width: {}, par_height: {} }}", p.epar.0, p.epar.1),
                                r => format!("Reserved({})", r),
                            },
                            w: (p.pwi + 1) * 4,
                            h: p.phi * 4,
                        }
                    } else {
                        std_name(p.src_fmt)
                    });
                    if p.umv {
                        v.mvrange = Some(if p.uui_unlimited { "Unlimited" } else { "Extended" });
                    }
                    if p.ss {
                        v.sss = Some((p.sss & 2 != 0, p.sss & 1 != 0));
                    }
                    if p.rps {
                        v.rpsmf = Some(p.rpsmf);
                    }
                }
                v.ptype = match p.ptype {
                    0 => "IFrame".into(),
                    1 => "PFrame".into(),
                    2 => "ImprovedPbFrame".into(),
                    3 => "BFrame".into(),
                    4 => "EiFrame".into(),
                    5 => "EpFrame".into(),
                    r => format!("Reserved({})", r),
                };
                if p.rpr {
                    options.push("REFERENCE_PICTURE_RESAMPLING");
                }
                if p.rru {
                    options.push("REDUCED_RESOLUTION_UPDATE");
                }
                if p.rtype {
                    options.push("ROUNDING_TYPE_ONE");
                }
                if self.pcf_in_use(inh) {
                    v.tr |= (p.etr as u16) << 8;
                }
                if scal {
                    v.layer = Some((p.elnum, if p.ufep == 1 { Some(p.rlnum) } else { None }));
                }
                if self.rps_in_use(inh) {
                    v.trp = p.trp;
                }
            }
        }
        if self.is_pb() {
            v.trb = Some(if self.pcf_in_use(inh) { self.trb } else { self.trb & 7 });
            v.dbq = Some(self.dbq);
        }
        options.sort();
        options.dedup();
        v.options = options;
        v
    }
}

// ----------------------------------------------------------------------------------------
// The field-level view
// ----------------------------------------------------------------------------------------

#[derive(Clone, Debug, PartialEq)]
pub enum FmtView {
    Std(&'static str),
    Custom { par: String, w: u16, h: u16 },
}

#[derive(Clone, Debug, PartialEq)]
pub struct HeaderView {
    pub version: Option<u8>,
    pub tr: u16,
    pub format: Option<FmtView>,
    pub options: Vec<&'static str>,
    pub has_plus: bool,
    pub has_opp: bool,
    pub ptype: String,
    pub mvrange: Option<&'static str>,
    /// (rectangular slices, arbitrary order)
    pub sss: Option<(bool, bool)>,
    pub layer: Option<(u8, Option<u8>)>,
    /// raw 3 RPSMF bits
    pub rpsmf: Option<u8>,
    pub trp: Option<u16>,
    pub quant: u8,
    pub cpm: Option<u8>,
    pub trb: Option<u8>,
    pub dbq: Option<u8>,
    pub extra: Vec<u8>,
}

impl HeaderView {
    /// Names of the fields in which two views differ.
    pub fn diff(&self, o: &HeaderView) -> Vec<String> {
        let mut d = vec![];
        macro_rules! f {
            ($n:ident) => {
                if self.$n != o.$n {
                    d.push(format!("{}: expected {:?} got {:?}", stringify!($n), self.$n, o.$n));
                }
            };
        }
        f!(version);
        f!(tr);
        f!(format);
        f!(options);
        f!(has_plus);
        f!(has_opp);
        f!(ptype);
        f!(mvrange);
        f!(sss);
        f!(layer);
        f!(rpsmf);
        f!(trp);
        f!(quant);
        f!(cpm);
        f!(trb);
        f!(dbq);
        f!(extra);
        d
    }
}

// ----------------------------------------------------------------------------------------
// Independent declared-size probe (C01's domain guard)
// ----------------------------------------------------------------------------------------

/// Parse just enough of the byte string to find the picture size it declares,
/// the way any decoder must: a start code at bit offset 0..=8, then the header.
/// Returns None when no size can be determined (no start code, truncated,
/// inherited format). Never consults the code under test.
pub fn declared_size(data: &[u8], sorenson: bool) -> Option<(u32, u32)> {
    declared_size_at(data, 0, sorenson)
}

/// Same probe, starting at an arbitrary bit position of the source.
pub fn declared_size_at(data: &[u8], start: usize, sorenson: bool) -> Option<(u32, u32)> {
    for off in start..=start + 8 {
        if bits_at(data, off, 17) == Some(1) {
            let mut p = off + 17;
            let mut rd = |n: u32| -> Option<u64> {
                let v = bits_at(data, p, n)?;
                p += n as usize;
                Some(v)
            };
            let gob = rd(5)?;
            if sorenson {
                rd(8)?;
                return match rd(3)? {
                    0 => Some((rd(8)? as u32, rd(8)? as u32)),
                    1 => Some((rd(16)? as u32, rd(16)? as u32)),
                    2 => Some((352, 288)),
                    3 => Some((176, 144)),
                    4 => Some((128, 96)),
                    5 => Some((320, 240)),
                    6 => Some((160, 120)),
                    _ => None,
                };
            }
            if gob != 0 {
                return None;
            }
            rd(8)?;
            let pt = rd(8)?;
            let std = |f: u64| match f {
                1 => Some((128, 96)),
                2 => Some((176, 144)),
                3 => Some((352, 288)),
                4 => Some((704, 576)),
                5 => Some((1408, 1152)),
                _ => None,
            };
            if pt & 7 != 7 {
                return std(pt & 7);
            }
            let ufep = rd(3)?;
            if ufep != 1 {
                return None;
            }
            let opp = rd(18)?;
            let fmt = opp >> 15;
            if fmt != 6 {
                return std(fmt);
            }
            rd(9)?;
            if rd(1)? == 1 {
                rd(2)?;
            }
            let cp = rd(23)?;
            let pwi = (cp >> 10) & 0x1ff;
            let phi = cp & 0x1ff;
            return Some((((pwi + 1) * 4) as u32, (phi * 4) as u32));
        }
    }
    None
}
