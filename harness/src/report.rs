//! What a monitor observed: counters, distinct-case fingerprints, samples and
//! violations. One `Report` per shard; shards are merged by the driver.

use crate::json::J;
use std::collections::{BTreeMap, HashSet};

#[derive(Clone, Debug)]
pub struct Violation {
    /// Stable signature used for de-duplication and for matching known findings.
    pub sig: String,
    pub detail: String,
    /// Self-contained case that `hv replay` can re-execute.
    pub replay: J,
}

#[derive(Default)]
pub struct Report {
    pub evaluations: u64,
    pub distinct: HashSet<u64>,
    /// Cases that are distinct by construction of an enumeration (counted, not hashed).
    pub distinct_enumerated: u64,
    pub counters: BTreeMap<String, u64>,
    pub maxf: BTreeMap<String, f64>,
    pub samples: Vec<J>,
    pub violations: BTreeMap<String, (Violation, u64)>,
    pub inconclusive: Vec<String>,
    pub exhaustive: Option<bool>,
    pub notes: BTreeMap<String, J>,
}

impl Report {
    pub fn new() -> Self {
        Self::default()
    }
    pub fn count(&mut self, key: &str) {
        *self.counters.entry(key.to_string()).or_insert(0) += 1;
    }
    pub fn add(&mut self, key: &str, n: u64) {
        *self.counters.entry(key.to_string()).or_insert(0) += n;
    }
    pub fn get(&self, key: &str) -> u64 {
        self.counters.get(key).copied().unwrap_or(0)
    }
    pub fn max(&mut self, key: &str, v: f64) {
        let e = self.maxf.entry(key.to_string()).or_insert(f64::MIN);
        if v > *e {
            *e = v;
        }
    }
    pub fn sample(&mut self, cap: usize, j: impl FnOnce() -> J) {
        if self.samples.len() < cap {
            self.samples.push(j());
        }
    }
    pub fn violation(&mut self, sig: impl Into<String>, detail: impl Into<String>, replay: J) {
        let sig = sig.into();
        match self.violations.get_mut(&sig) {
            Some((_, n)) => *n += 1,
            None => {
                self.violations.insert(sig.clone(), (Violation { sig, detail: detail.into(), replay }, 1));
            }
        }
    }
    pub fn merge(&mut self, o: Report) {
        self.evaluations += o.evaluations;
        self.distinct.extend(o.distinct);
        self.distinct_enumerated += o.distinct_enumerated;
        for (k, v) in o.counters {
            *self.counters.entry(k).or_insert(0) += v;
        }
        for (k, v) in o.maxf {
            self.max(&k, v);
        }
        for s in o.samples {
            if self.samples.len() < 8 {
                self.samples.push(s);
            }
        }
        for (k, (v, n)) in o.violations {
            match self.violations.get_mut(&k) {
                Some((_, m)) => *m += n,
                None => {
                    self.violations.insert(k, (v, n));
                }
            }
        }
        self.inconclusive.extend(o.inconclusive);
        self.exhaustive = match (self.exhaustive, o.exhaustive) {
            (None, x) => x,
            (x, None) => x,
            (Some(a), Some(b)) => Some(a && b),
        };
        for (k, v) in o.notes {
            self.notes.insert(k, v);
        }
    }
    pub fn merge_all(rs: Vec<Report>) -> Report {
        let mut it = rs.into_iter();
        let mut a = it.next().unwrap_or_default();
        for r in it {
            a.merge(r);
        }
        a
    }
    /// Require that a counter reached a minimum; otherwise the run observed too
    /// little to support a "held" verdict and is reported inconclusive.
    pub fn require(&mut self, key: &str, min: u64) {
        let v = self.get(key);
        if v < min {
            self.inconclusive.push(format!("observed only {} of '{}' (need >= {})", v, key, min));
        }
    }
    pub fn to_json(&self, prop: &str, stage: &str, tier: &str, seed: u64, rule: &str, wall_s: f64) -> J {
        let mut counters = J::obj();
        for (k, v) in &self.counters {
            counters.put(k, *v);
        }
        let mut maxf = J::obj();
        for (k, v) in &self.maxf {
            maxf.put(k, *v);
        }
        let viols: Vec<J> = self
            .violations
            .values()
            .map(|(v, n)| J::obj().set("sig", v.sig.clone()).set("detail", v.detail.clone()).set("count", *n).set("replay", v.replay.clone()))
            .collect();
        let mut j = J::obj()
            .set("property_id", prop)
            .set("stage", stage)
            .set("tier", tier)
            .set("seed", seed)
            .set("evaluations", self.evaluations)
            .set("distinct_nontrivial", self.distinct.len() as u64 + self.distinct_enumerated)
            .set("rule", rule)
            .set("samples", J::Arr(self.samples.clone()))
            .set("counters", counters)
            .set("max", maxf)
            .set("violations", J::Arr(viols))
            .set("inconclusive", J::Arr(self.inconclusive.iter().map(|s| J::Str(s.clone())).collect()))
            .set("wall_s", wall_s);
        if let Some(e) = self.exhaustive {
            j.put("exhaustive", e);
        }
        let mut notes = J::obj();
        for (k, v) in &self.notes {
            notes.put(k, v.clone());
        }
        j.put("notes", notes);
        j
    }
}
