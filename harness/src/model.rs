//! The independent executable specification.
pub mod annexj;
pub mod bits;
pub mod bt601;
pub mod header;
pub mod recon;
pub mod syntax;
pub mod tables;
