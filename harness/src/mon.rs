//! One monitor per property. Every monitor is organised around a deterministic
//! `case(ctx, shard, index)` so that any witness can be replayed from its coordinates.

use crate::json::J;
use crate::report::Report;
use crate::{Ctx, Tier};

pub mod c01;
pub mod c02;
pub mod c03;
pub mod c04;
pub mod c05;
pub mod c06;
pub mod c10;
pub mod c11;
pub mod c12;
pub mod c13;
pub mod c14;
pub mod c15;
pub mod c17;
pub mod deblk;
pub mod ladder;
pub mod yuv;
pub mod pcheck;

pub fn run(prop: &str, ctx: &Ctx) -> Option<(Report, String)> {
    Some(match prop {
        "C01" => c01::run(ctx),
        "C02" => c02::run(ctx),
        "C03" => c03::run(ctx),
        "C12" => c12::run(ctx),
        "C06" => c06::run(ctx),
        "C14" => c14::run(ctx),
        "C04" => c04::run(ctx),
        "C17" => c17::run(ctx),
        "C15" => c15::run(ctx),
        "C05" => c05::run(ctx),
        "C10" => c10::run(ctx),
        "C11" => c11::run(ctx),
        "C13" => c13::run(ctx),
        "C07" => yuv::run_c07(ctx),
        "C08" => yuv::run_c08(ctx),
        "C09" => deblk::run_c09(ctx),
        "C16" => deblk::run_c16(ctx),
        _ => return None,
    })
}

/// Run one case; a panic that escapes the monitor's own API-boundary `catch` is
/// classified by where it came from: harness code -> inconclusive (never a
/// violation), anything else (the code under test, its dependencies, std) -> violation.
pub fn guarded(rep: &mut Report, coords: impl FnOnce() -> J, f: impl FnOnce(&mut Report)) {
    if let Err(p) = crate::util::catch(|| f(rep)) {
        if p.loc.starts_with("src/") {
            rep.inconclusive.push(format!("harness panic at {}: {}", p.loc, p.msg));
        } else {
            rep.violation(format!("panic@{}", p.loc), format!("panic outside a guarded API call: '{}' at {}", p.msg, p.loc), coords());
        }
    }
}

/// Standard replay coordinates.
pub fn coords(prop: &str, ctx: &Ctx, shard: usize, index: u64) -> J {
    J::obj().set("property", prop).set("tier", ctx.tier_name()).set("seed", ctx.seed).set("stage", ctx.stage.clone()).set("scale", ctx.scale_pct).set("shard", shard).set("index", index)
}

pub fn replay(j: &J) -> i32 {
    let prop = j.get("property").and_then(|p| p.as_str()).unwrap_or("").to_string();
    let tier = if j.get("tier").and_then(|t| t.as_str()) == Some("thorough") { Tier::Thorough } else { Tier::Quick };
    let ctx = Ctx {
        tier,
        seed: j.get("seed").and_then(|s| s.as_i64()).unwrap_or(1) as u64,
        threads: 1,
        stage: j.get("stage").and_then(|s| s.as_str()).unwrap_or("chk").to_string(),
        scale_pct: j.get("scale").and_then(|s| s.as_i64()).unwrap_or(100) as u64,
    };
    let shard = j.get("shard").and_then(|s| s.as_i64()).unwrap_or(0) as usize;
    let index = j.get("index").and_then(|s| s.as_i64()).unwrap_or(0) as u64;
    let mut rep = Report::new();
    if j.get("kind").and_then(|k| k.as_str()) == Some("tape") {
        let tape = crate::util::unhex(j.get("tape").and_then(|t| t.as_str()).unwrap_or(""));
        let r = crate::guided_case(&prop, &tape);
        for (v, _) in r.violations.values() {
            println!("replay: VIOLATION property={} sig={} :: {}", prop, v.sig, v.detail);
        }
        if r.violations.is_empty() {
            println!("replay: property {} held on this case", prop);
        }
        return if r.violations.is_empty() { 0 } else { 1 };
    }
    match prop.as_str() {
        "C01" => c01::replay(&ctx, j, &mut rep),
        "C02" => {
            if j.get("kind").and_then(|k| k.as_str()) == Some("ladder") {
                c02::ladder_case(&ctx, j.get("k").and_then(|k| k.as_i64()).unwrap_or(0) as usize, &mut rep)
            } else if j.get("kind").and_then(|k| k.as_str()) == Some("pairs") {
                c02::pairs_case(&ctx, j.get("k").and_then(|k| k.as_i64()).unwrap_or(0) as usize, &mut rep)
            } else if j.get("kind").and_then(|k| k.as_str()) == Some("extreme") {
                c02::extreme_case(&ctx, j.get("k").and_then(|k| k.as_i64()).unwrap_or(0) as usize, &mut rep)
            } else {
                c02::case(&ctx, shard, index, &mut rep)
            }
        }
        "C03" => {
            if j.get("kind").and_then(|k| k.as_str()) == Some("ladder") {
                c03::ladder_case(&ctx, j.get("k").and_then(|k| k.as_i64()).unwrap_or(0) as usize, &mut rep)
            } else if j.get("kind").and_then(|k| k.as_str()) == Some("pairs") {
                c03::pairs_case(&ctx, j.get("k").and_then(|k| k.as_i64()).unwrap_or(0) as usize, &mut rep)
            } else {
                c03::case(&ctx, shard, index, &mut rep)
            }
        }
        "C12" => {
            if j.get("kind").and_then(|k| k.as_str()) == Some("modes") {
                c12::replay_modes(&ctx, j.get("k").and_then(|k| k.as_i64()).unwrap_or(0) as usize, &mut rep)
            } else {
                c12::replay_shard(&ctx, shard, &mut rep)
            }
        }
        "C06" => c06::replay_shard(&ctx, shard, &mut rep),
        "C14" => c14::replay_shard(&ctx, shard, &mut rep),
        "C04" => c04::replay(&ctx, j, &mut rep),
        "C17" => { let (r, _) = c17::run(&ctx); rep.merge(r); }
        "C15" => {
            if j.get("kind").and_then(|k| k.as_str()) == Some("ladder") {
                c15::ladder(&ctx, j.get("k").and_then(|k| k.as_i64()).unwrap_or(0) as usize, &mut rep)
            } else {
                c15::case(&ctx, shard, index, &mut rep)
            }
        }
        "C05" => c05::replay(&ctx, j, &mut rep),
        "C10" => c10::replay(j, &mut rep),
        "C11" => c11::replay(&ctx, j, &mut rep),
        "C13" => c13::replay(&ctx, j, &mut rep),
        "C07" => yuv::replay_c07(j, &mut rep),
        "C08" => yuv::replay_c08(j, &mut rep),
        "C09" => deblk::replay_image(j, &mut rep, "C09"),
        "C16" => deblk::replay_image(j, &mut rep, "C16"),
        _ => {
            eprintln!("unknown property in replay file");
            return 2;
        }
    }
    if rep.violations.is_empty() {
        println!("replay: property {} held on this case", prop);
        0
    } else {
        for (v, _) in rep.violations.values() {
            println!("replay: VIOLATION property={} sig={} :: {}", prop, v.sig, v.detail);
        }
        1
    }
}
