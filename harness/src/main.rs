//! hv - runtime monitors for the h263-rs properties C01..C17 (see lib.rs).
fn main() {
    hv::real_main()
}
