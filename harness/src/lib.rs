//! hv - runtime monitors for the h263-rs properties C01..C17.
//!
//!   hv run <Cxx> --tier quick|thorough --seed N --stage <name> --out <file> [--threads N]
//!   hv replay <file>
//!   hv selfcheck            (model tables vs. structural rules)

#![allow(dead_code)]
pub mod gen;
pub mod json;
pub mod model;
pub mod mon;
pub mod report;
pub mod sut;
pub mod util;

use json::J;
use report::Report;

#[derive(Clone, Copy, PartialEq, Eq, Debug)]
pub enum Tier {
    Quick,
    Thorough,
}

#[derive(Clone, Debug)]
pub struct Ctx {
    pub tier: Tier,
    pub seed: u64,
    pub threads: usize,
    pub stage: String,
    /// Workload scale in percent (sanitizer stages run the same monitors on smaller workloads).
    pub scale_pct: u64,
}

impl Ctx {
    pub fn tier_name(&self) -> &'static str {
        match self.tier {
            Tier::Quick => "quick",
            Tier::Thorough => "thorough",
        }
    }
    /// Pick the workload size for the tier, then apply the stage scale.
    pub fn n(&self, quick: u64, thorough: u64) -> u64 {
        let base = if self.tier == Tier::Quick { quick } else { thorough };
        (base * self.scale_pct / 100).max(1)
    }
    pub fn is_main(&self) -> bool {
        self.stage == "chk" || self.stage == "rel"
    }
    pub fn miri(&self) -> bool {
        self.stage == "miri"
    }
}

/// Properties whose monitors have a `case` driven by one generator stream; the coverage-guided
/// stage feeds that stream from the fuzzer's bytes (a "decision tape") instead of the PRNG.
pub const GUIDED_PROPS: [&str; 8] = ["C01", "C02", "C03", "C04", "C05", "C13", "C14", "C15"];

/// Run one case of `prop`'s monitor with the generator's decisions read from `tape`.
/// Violations carry the tape as their replay coordinates.
pub fn guided_case(prop: &str, tape: &[u8]) -> Report {
    let ctx = Ctx { tier: Tier::Quick, seed: 1, threads: 1, stage: "guided".into(), scale_pct: 100 };
    let mut tmp = Report::new();
    util::set_decision_tape(tape);
    let coords = || J::obj().set("property", prop).set("kind", "tape");
    mon::guarded(&mut tmp, coords, |rep| match prop {
        "C01" => mon::c01::case(&ctx, 1, 0, rep),
        "C02" => mon::c02::case(&ctx, 0, 0, rep),
        "C03" => mon::c03::case(&ctx, 0, 0, rep),
        "C04" => mon::c04::case(&ctx, 0, 0, rep),
        "C05" => mon::c05::case(&ctx, 0, 0, rep),
        "C15" => mon::c15::case(&ctx, 0, 0, rep),
        "C14" => mon::c14::case(&ctx, 0, 0, rep),
        "C13" => {
            // size and quantiser choice come from the first three bytes of the tape
            let (w, h, k) = (1 + tape[0] as usize % 96, 1 + tape[1] as usize % 96, (tape[2] % 3) as u64);
            util::set_decision_tape(&tape[3..]);
            mon::c13::case(&ctx, w, h, k, rep)
        }
        _ => {}
    });
    util::clear_decision_tape();
    let mut out = Report::new();
    out.evaluations = tmp.evaluations;
    out.counters = tmp.counters.clone();
    out.inconclusive = tmp.inconclusive.clone();
    out.distinct = tmp.distinct.clone();
    for (v, n) in tmp.violations.values() {
        for _ in 0..*n {
            out.violation(v.sig.clone(), v.detail.clone(), J::obj().set("property", prop).set("kind", "tape").set("tape", util::hex(tape)));
        }
    }
    out
}

fn arg_val(args: &[String], name: &str) -> Option<String> {
    args.iter().position(|a| a == name).and_then(|i| args.get(i + 1).cloned())
}

/// Entry point of the `hv` binary.
pub fn real_main() {
    let args: Vec<String> = std::env::args().collect();
    if args.len() < 2 {
        eprintln!("usage: hv run <Cxx> ... | hv replay <file> | hv selfcheck");
        std::process::exit(2);
    }
    match args[1].as_str() {
        "selfcheck" => match model::tables::self_check() {
            Ok(()) => println!("tables ok"),
            Err(e) => {
                println!("tables BAD: {}", e);
                std::process::exit(3);
            }
        },
        "run" => {
            let prop = args.get(2).cloned().unwrap_or_default();
            let tier = match arg_val(&args, "--tier").as_deref() {
                Some("thorough") => Tier::Thorough,
                _ => Tier::Quick,
            };
            let seed: u64 = arg_val(&args, "--seed").and_then(|s| s.parse().ok()).unwrap_or(1);
            let threads: usize = arg_val(&args, "--threads").and_then(|s| s.parse().ok()).unwrap_or(16);
            let stage = arg_val(&args, "--stage").unwrap_or_else(|| "chk".into());
            let scale_pct: u64 = arg_val(&args, "--scale").and_then(|s| s.parse().ok()).unwrap_or(100);
            let out = arg_val(&args, "--out");
            let part: usize = arg_val(&args, "--part").and_then(|s| s.parse().ok()).unwrap_or(0);
            let parts: usize = arg_val(&args, "--parts").and_then(|s| s.parse().ok()).unwrap_or(1);
            util::set_partition(part, parts);
            let ctx = Ctx { tier, seed, threads, stage: stage.clone(), scale_pct };
            if stage == "miri" {
                util::INTERPRETED.store(true, std::sync::atomic::Ordering::Relaxed);
                // the structural table check is done by the native stages; skip it in the interpreter
            } else if let Err(e) = model::tables::self_check() {
                eprintln!("model table self-check failed: {}", e);
                std::process::exit(3);
            }
            let t0 = std::time::Instant::now();
            let (rep, rule): (Report, String) = match mon::run(&prop, &ctx) {
                Some(x) => x,
                None => {
                    eprintln!("unknown property {}", prop);
                    std::process::exit(2);
                }
            };
            let wall = t0.elapsed().as_secs_f64();
            let j = rep.to_json(&prop, &stage, ctx.tier_name(), seed, &rule, wall);
            let s = j.to_string();
            match out {
                Some(p) => std::fs::write(&p, s).expect("write out"),
                None => println!("{}", s),
            }
            eprintln!(
                "[hv] {} stage={} tier={} seed={} evaluations={} distinct={} violations={} inconclusive={} wall={:.1}s",
                prop,
                stage,
                ctx.tier_name(),
                seed,
                rep.evaluations,
                rep.distinct.len() as u64 + rep.distinct_enumerated,
                rep.violations.len(),
                rep.inconclusive.len(),
                wall
            );
        }
        "replay" => {
            let path = args.get(2).expect("replay file");
            let txt = std::fs::read_to_string(path).expect("read replay");
            let j = J::parse(&txt).expect("parse replay");
            let code = mon::replay(&j);
            std::process::exit(code);
        }
        "tape" => {
            // hv tape <Cxx> <file> [--out <json>]: replay one decision tape (coverage-guided stage)
            let prop = args.get(2).cloned().unwrap_or_default();
            let data = std::fs::read(args.get(3).expect("tape file")).expect("read tape");
            let rep = guided_case(&prop, &data);
            let j = rep.to_json(&prop, "guided", "thorough", 1, "", 0.0);
            if let Some(p) = arg_val(&args, "--out") {
                std::fs::write(&p, j.to_string()).expect("write out");
            }
            for (v, _) in rep.violations.values() {
                println!("replay: VIOLATION property={} sig={} :: {}", prop, v.sig, v.detail);
            }
            std::process::exit(if rep.violations.is_empty() { 0 } else { 1 });
        }
        "tapes" => {
            // hv tapes <dir> <seed> <n>: seed corpus of pseudo-random decision tapes
            let dir = args.get(2).cloned().unwrap_or_default();
            let seed: u64 = args.get(3).and_then(|s| s.parse().ok()).unwrap_or(1);
            let n: u64 = args.get(4).and_then(|s| s.parse().ok()).unwrap_or(64);
            std::fs::create_dir_all(&dir).expect("corpus dir");
            for i in 0..n {
                let mut rng = util::Rng::new(seed ^ 0x7a9e, i);
                let mut b = vec![0u8; 256 << (i % 5)];
                rng.fill(&mut b);
                std::fs::write(format!("{}/seed-{:04}", dir, i), &b).expect("write tape");
            }
        }
        "corpus" => {
            let dir = args.get(2).cloned().unwrap_or_default();
            let seed: u64 = args.get(3).and_then(|s| s.parse().ok()).unwrap_or(1);
            std::process::exit(mon::c01::write_corpus(&dir, seed));
        }
        "coldstart" => {
            std::process::exit(mon::c17::coldstart_main(&args[2..]));
        }
        "digest17" => {
            std::process::exit(mon::c17::digest_main(&args[2..]));
        }
        "worker" => {
            let code = mon::c01::worker_main(&args[2..]);
            std::process::exit(code);
        }
        other => {
            eprintln!("unknown command {}", other);
            std::process::exit(2);
        }
    }
}
