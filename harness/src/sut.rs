//! Adapter around the system under test: the only place that touches the
//! real `h263-rs`, `h263-rs-yuv` and `h263-rs-deblock` APIs for decoding.

use crate::model::header::{FmtView, HeaderView};
use crate::model::recon::Planes;
use crate::util::{catch, Panic};
use h263_rs::parser::H263Reader;
use h263_rs::verif::types as t;
use h263_rs::{DecoderOption, Error, H263State};
use std::io::Read;

pub fn options(sorenson: bool, scal: bool) -> DecoderOption {
    let mut o = DecoderOption::empty();
    if sorenson {
        o |= DecoderOption::SORENSON_SPARK_BITSTREAM;
    }
    if scal {
        o |= DecoderOption::USE_SCALABILITY_MODE;
    }
    o
}

pub fn err_kind(e: &Error) -> String {
    match e {
        Error::UnhandledIoError(ioe) => {
            if ioe.kind() == std::io::ErrorKind::UnexpectedEof {
                "Eof".into()
            } else {
                format!("Io({:?})", ioe.kind())
            }
        }
        other => format!("{:?}", other),
    }
}

#[derive(Clone, Debug, PartialEq)]
pub enum Outcome {
    Ok,
    Err(String),
    Panic { msg: String, loc: String },
}

impl Outcome {
    pub fn short(&self) -> String {
        match self {
            Outcome::Ok => "Ok".into(),
            Outcome::Err(k) => format!("Err({})", k),
            Outcome::Panic { loc, .. } => format!("Panic@{}", loc),
        }
    }
    pub fn is_ok(&self) -> bool {
        matches!(self, Outcome::Ok)
    }
}

pub fn outcome_of(r: Result<Result<(), Error>, Panic>) -> Outcome {
    match r {
        Ok(Ok(())) => Outcome::Ok,
        Ok(Err(e)) => Outcome::Err(err_kind(&e)),
        Err(p) => Outcome::Panic { msg: p.msg, loc: p.loc },
    }
}

/// A `Read` that hands out at most `chunk` bytes per call and counts what it delivered.
pub struct ChunkRead<'a> {
    pub data: &'a [u8],
    pub pos: usize,
    pub chunk: usize,
    /// every n-th call (n > 0) answers `Interrupted` and delivers nothing
    pub interrupt_every: usize,
    pub calls: usize,
}

impl<'a> Read for ChunkRead<'a> {
    fn read(&mut self, buf: &mut [u8]) -> std::io::Result<usize> {
        self.calls += 1;
        if self.interrupt_every > 0 && self.calls % self.interrupt_every == 0 {
            return Err(std::io::Error::new(std::io::ErrorKind::Interrupted, "interrupted"));
        }
        let n = buf.len().min(self.chunk.max(1)).min(self.data.len() - self.pos);
        buf[..n].copy_from_slice(&self.data[self.pos..self.pos + n]);
        self.pos += n;
        Ok(n)
    }
}

/// A source whose contents can grow between calls (split delivery).
pub struct GrowRead {
    pub data: std::rc::Rc<std::cell::RefCell<Vec<u8>>>,
    pub pos: usize,
}

impl Read for GrowRead {
    fn read(&mut self, buf: &mut [u8]) -> std::io::Result<usize> {
        let d = self.data.borrow();
        let n = buf.len().min(d.len() - self.pos);
        buf[..n].copy_from_slice(&d[self.pos..self.pos + n]);
        self.pos += n;
        Ok(n)
    }
}

/// A growable source that counts the bytes it has delivered, so that the reader's
/// absolute bit position can be computed from the position hook.
pub struct CountRead {
    pub data: std::rc::Rc<std::cell::RefCell<Vec<u8>>>,
    pub delivered: std::rc::Rc<std::cell::RefCell<usize>>,
    /// at most this many bytes are handed out per `read` call
    pub chunk: usize,
    /// every n-th `read` call (n > 0) is answered with `ErrorKind::Interrupted` and delivers nothing -
    /// the transient condition `std::io::Read` callers are expected to retry
    pub interrupt_every: usize,
    pub calls: usize,
    /// once `delivered` reaches this many bytes, one read call fails with a transient error (see `Dec::stall`)
    pub stall_at: Option<(usize, u8)>,
}

impl CountRead {
    pub fn new(bytes: &[u8]) -> (CountRead, std::rc::Rc<std::cell::RefCell<Vec<u8>>>, std::rc::Rc<std::cell::RefCell<usize>>) {
        let data = std::rc::Rc::new(std::cell::RefCell::new(bytes.to_vec()));
        let delivered = std::rc::Rc::new(std::cell::RefCell::new(0usize));
        (CountRead { data: data.clone(), delivered: delivered.clone(), chunk: usize::MAX, interrupt_every: 0, calls: 0, stall_at: None }, data, delivered)
    }
    pub fn with_chunk(mut self, chunk: usize) -> CountRead {
        self.chunk = chunk.max(1);
        self
    }
    pub fn with_interrupts(mut self, every: usize) -> CountRead {
        self.interrupt_every = every;
        self
    }
    pub fn with_stall(mut self, at: Option<(usize, u8)>) -> CountRead {
        self.stall_at = at;
        self
    }
}

impl Read for CountRead {
    fn read(&mut self, buf: &mut [u8]) -> std::io::Result<usize> {
        self.calls += 1;
        if self.interrupt_every > 0 && self.calls % self.interrupt_every == 0 {
            return Err(std::io::Error::new(std::io::ErrorKind::Interrupted, "interrupted"));
        }
        let d = self.data.borrow();
        let mut pos = self.delivered.borrow_mut();
        let mut limit = usize::MAX;
        if let Some((at, kind)) = self.stall_at {
            if *pos >= at {
                self.stall_at = None;
                let k = match kind {
                    0 => std::io::ErrorKind::WouldBlock,
                    1 => std::io::ErrorKind::TimedOut,
                    _ => std::io::ErrorKind::Other,
                };
                return Err(std::io::Error::new(k, "transient source error"));
            }
            limit = at - *pos;
        }
        let n = buf.len().min(d.len() - *pos).min(self.chunk).min(limit);
        buf[..n].copy_from_slice(&d[*pos..*pos + n]);
        *pos += n;
        Ok(n)
    }
}

/// Absolute bit position of a reader over a `CountRead`.
pub fn abs_pos<R: Read>(rd: &H263Reader<R>, delivered: &std::rc::Rc<std::cell::RefCell<usize>>) -> usize {
    let (bits, buffered) = rd.verif_position();
    (*delivered.borrow() - buffered) * 8 + bits
}

pub struct Dec {
    pub st: H263State,
    /// Bytes the source hands out per read call when a picture is decoded from its own reader
    /// (`usize::MAX`: a plain slice).
    pub chunk: usize,
    /// Transient source error: `Some((permille, kind))` makes the source of every picture answer one
    /// read call - the first one at or behind `len * permille / 1000` bytes - with an I/O error of that
    /// kind (0 = WouldBlock, 1 = TimedOut, 2 = Other) and then carry on. The failed decode call is
    /// repeated on the same reader: a failed call changes nothing, so the outcome must be what it
    /// would have been without the hiccup.
    pub stall: Option<(usize, u8)>,
    /// number of decode calls that were repeated after a transient source error
    pub stalls_retried: usize,
    /// every n-th read call of a picture's own source answers `Interrupted` (n > 0; needs `chunk` set)
    pub interrupt_every: usize,
    /// Late delivery: `Some(n)` (1..=6) hands the reader only the first n bytes of every picture - never a
    /// complete picture header, so the call must fail for lack of data - then appends the rest to the same
    /// source and repeats the call, as the decoder's documentation allows.
    pub trickle: Option<usize>,
    pub trickles_retried: usize,
}

/// A byte source that delivers at most `chunk` bytes per read call and fails once with a transient error.
pub struct StallRead<'a> {
    data: &'a [u8],
    pos: usize,
    chunk: usize,
    stall_at: usize,
    kind: u8,
    fired: std::rc::Rc<std::cell::Cell<bool>>,
}

impl Read for StallRead<'_> {
    fn read(&mut self, buf: &mut [u8]) -> std::io::Result<usize> {
        if !self.fired.get() && self.pos >= self.stall_at {
            self.fired.set(true);
            let k = match self.kind {
                0 => std::io::ErrorKind::WouldBlock,
                1 => std::io::ErrorKind::TimedOut,
                _ => std::io::ErrorKind::Other,
            };
            return Err(std::io::Error::new(k, "transient source error"));
        }
        let mut n = buf.len().min(self.chunk.max(1)).min(self.data.len() - self.pos);
        if !self.fired.get() {
            n = n.min(self.stall_at - self.pos);
        }
        buf[..n].copy_from_slice(&self.data[self.pos..self.pos + n]);
        self.pos += n;
        Ok(n)
    }
}

impl Dec {
    pub fn new(sorenson: bool, scal: bool) -> Dec {
        Dec { st: H263State::new(options(sorenson, scal)), chunk: usize::MAX, stall: None, stalls_retried: 0, interrupt_every: 0, trickle: None, trickles_retried: 0 }
    }
    /// Decode one picture supplied in its own reader.
    pub fn decode(&mut self, bytes: &[u8]) -> Outcome {
        if let Some(n) = self.trickle {
            if bytes.len() > n {
                let (src, data, _) = CountRead::new(&bytes[..n]);
                let src = src.with_chunk(if self.chunk == usize::MAX { 1 << 20 } else { self.chunk });
                let st = &mut self.st;
                let mut retried = 0;
                let out = outcome_of(catch(|| {
                    let mut rd = H263Reader::from_source(src);
                    let first = st.decode_next_picture(&mut rd);
                    match &first {
                        Err(Error::UnhandledIoError(e)) if e.kind() == std::io::ErrorKind::UnexpectedEof => {
                            data.borrow_mut().extend_from_slice(&bytes[n..]);
                            retried = 1;
                            st.decode_next_picture(&mut rd)
                        }
                        _ => first,
                    }
                }));
                self.trickles_retried += retried;
                return out;
            }
        }
        if let Some((permille, kind)) = self.stall {
            let fired = std::rc::Rc::new(std::cell::Cell::new(false));
            let stall_at = (bytes.len() * permille.min(1000) / 1000).min(bytes.len().saturating_sub(1));
            let src = StallRead { data: bytes, pos: 0, chunk: if self.chunk == usize::MAX { 1 << 20 } else { self.chunk }, stall_at, kind, fired: fired.clone() };
            let st = &mut self.st;
            let mut retried = 0;
            let out = outcome_of(catch(|| {
                let mut rd = H263Reader::from_source(src);
                let first = st.decode_next_picture(&mut rd);
                match &first {
                    Err(Error::UnhandledIoError(e)) if fired.get() && e.kind() != std::io::ErrorKind::UnexpectedEof => {
                        // the hiccup surfaced as an error: nothing may have changed, so the call is simply repeated
                        retried = 1;
                        st.decode_next_picture(&mut rd)
                    }
                    _ => first,
                }
            }));
            self.stalls_retried += retried;
            return out;
        }
        let st = &mut self.st;
        let chunk = self.chunk;
        let interrupt_every = self.interrupt_every;
        outcome_of(catch(|| {
            if chunk == usize::MAX {
                let mut rd = H263Reader::from_source(bytes);
                st.decode_next_picture(&mut rd)
            } else {
                let mut rd = H263Reader::from_source(ChunkRead { data: bytes, pos: 0, chunk, interrupt_every, calls: 0 });
                st.decode_next_picture(&mut rd)
            }
        }))
    }
    pub fn decode_with<R: Read>(&mut self, rd: &mut H263Reader<R>) -> Outcome {
        let st = &mut self.st;
        outcome_of(catch(|| st.decode_next_picture(rd)))
    }
    pub fn planes(&self) -> Option<Planes> {
        let p = self.st.get_last_picture()?;
        let (w, h) = p.format().into_width_and_height()?;
        let (y, cb, cr) = p.as_yuv();
        Some(Planes { w: w as usize, h: h as usize, y: y.to_vec(), cb: cb.to_vec(), cr: cr.to_vec() })
    }
    pub fn chroma_row(&self) -> Option<usize> {
        self.st.get_last_picture().map(|p| p.chroma_samples_per_row())
    }
    pub fn header_view(&self) -> Option<HeaderView> {
        self.st.get_last_picture().map(|p| view_of(p.as_header()))
    }
    /// Everything observable about the most recent picture, as one comparable value.
    pub fn snapshot(&self) -> Option<(HeaderView, Planes, usize)> {
        Some((self.header_view()?, self.planes()?, self.chroma_row()?))
    }
}

pub fn option_names(o: t::PictureOption) -> Vec<&'static str> {
    let all: [(t::PictureOption, &'static str); 17] = [
        (t::PictureOption::USE_SPLIT_SCREEN, "USE_SPLIT_SCREEN"),
        (t::PictureOption::USE_DOCUMENT_CAMERA, "USE_DOCUMENT_CAMERA"),
        (t::PictureOption::RELEASE_FULL_PICTURE_FREEZE, "RELEASE_FULL_PICTURE_FREEZE"),
        (t::PictureOption::UNRESTRICTED_MOTION_VECTORS, "UNRESTRICTED_MOTION_VECTORS"),
        (t::PictureOption::SYNTAX_BASED_ARITHMETIC_CODING, "SYNTAX_BASED_ARITHMETIC_CODING"),
        (t::PictureOption::ADVANCED_PREDICTION, "ADVANCED_PREDICTION"),
        (t::PictureOption::ADVANCED_INTRA_CODING, "ADVANCED_INTRA_CODING"),
        (t::PictureOption::DEBLOCKING_FILTER, "DEBLOCKING_FILTER"),
        (t::PictureOption::SLICE_STRUCTURED, "SLICE_STRUCTURED"),
        (t::PictureOption::REFERENCE_PICTURE_SELECTION, "REFERENCE_PICTURE_SELECTION"),
        (t::PictureOption::INDEPENDENT_SEGMENT_DECODING, "INDEPENDENT_SEGMENT_DECODING"),
        (t::PictureOption::ALTERNATIVE_INTER_VLC, "ALTERNATIVE_INTER_VLC"),
        (t::PictureOption::MODIFIED_QUANTIZATION, "MODIFIED_QUANTIZATION"),
        (t::PictureOption::REFERENCE_PICTURE_RESAMPLING, "REFERENCE_PICTURE_RESAMPLING"),
        (t::PictureOption::REDUCED_RESOLUTION_UPDATE, "REDUCED_RESOLUTION_UPDATE"),
        (t::PictureOption::ROUNDING_TYPE_ONE, "ROUNDING_TYPE_ONE"),
        (t::PictureOption::USE_DEBLOCKER, "USE_DEBLOCKER"),
    ];
    let mut v: Vec<&'static str> = all.iter().filter(|(f, _)| o.contains(*f)).map(|(_, n)| *n).collect();
    v.sort();
    v
}

pub fn fmt_view(f: &t::SourceFormat) -> FmtView {
    match f {
        t::SourceFormat::SubQcif => FmtView::Std("SubQcif"),
        t::SourceFormat::QuarterCif => FmtView::Std("QuarterCif"),
        t::SourceFormat::FullCif => FmtView::Std("FullCif"),
        t::SourceFormat::FourCif => FmtView::Std("FourCif"),
        t::SourceFormat::SixteenCif => FmtView::Std("SixteenCif"),
        t::SourceFormat::Reserved => FmtView::Std("Reserved"),
        t::SourceFormat::Extended(c) => FmtView::Custom { par: format!("{:?}", c.pixel_aspect_ratio), w: c.picture_width_indication, h: c.picture_height_indication },
    }
}

/// Field-level view of a parsed header, in the model's vocabulary.
pub fn view_of(p: &t::Picture) -> HeaderView {
    HeaderView {
        version: p.version,
        tr: p.temporal_reference,
        format: p.format.as_ref().map(fmt_view),
        options: option_names(p.options),
        has_plus: p.has_plusptype,
        has_opp: p.has_opptype,
        ptype: format!("{:?}", p.picture_type),
        mvrange: p.motion_vector_range.as_ref().map(|m| match m {
            t::MotionVectorRange::Extended => "Extended",
            t::MotionVectorRange::Unlimited => "Unlimited",
        }),
        sss: p.slice_submode.as_ref().map(|s| (s.contains(t::SliceSubmode::RECTANGULAR_SLICES), s.contains(t::SliceSubmode::ARBITRARY_ORDER))),
        layer: p.scalability_layer.as_ref().map(|l| (l.enhancement, l.reference)),
        rpsmf: p.reference_picture_selection_mode.as_ref().map(|m| {
            // back to the raw three bits: MSB is the "not reserved" bit
            let mut v = 0u8;
            if !m.contains(t::ReferencePictureSelectionMode::RESERVED) {
                v |= 4;
            }
            if m.contains(t::ReferencePictureSelectionMode::REQUEST_NEGATIVE_ACKNOWLEDGEMENT) {
                v |= 2;
            }
            if m.contains(t::ReferencePictureSelectionMode::REQUEST_ACKNOWLEDGEMENT) {
                v |= 1;
            }
            v
        }),
        trp: p.prediction_reference,
        quant: p.quantizer,
        cpm: p.multiplex_bitstream,
        trb: p.pb_reference,
        dbq: p.pb_quantizer.as_ref().map(|q| match q {
            t::BPictureQuantizer::Five => 0,
            t::BPictureQuantizer::Six => 1,
            t::BPictureQuantizer::Seven => 2,
            t::BPictureQuantizer::Eight => 3,
        }),
        extra: p.extra.clone(),
    }
}
