#!/bin/sh
# dev helper: run the given checks of a tier: ./run_some.sh thorough C07 C08 ...
cd "$(dirname "$0")"
TIER=$1; shift
mkdir -p out
for p in "$@"; do
  s=$(date +%s)
  ./check $p $TIER > out/run_$p.log 2>&1; rc=$?
  e=$(date +%s)
  echo "$p rc=$rc $((e-s))s $(grep -E '^(OK|VIOLATION|INCONCLUSIVE|KNOWN)' out/run_$p.log | head -3 | tr '\n' ' ' | cut -c1-260)"
done
