#!/usr/bin/env python3
"""Systematic self-validation: first-order syntactic mutants of ruffle-rs/h263-rs, filtered by the
repository's own test suite, then run against the quick checks (overflow-checked stage).

  ./mutate.py gen                      list candidate mutants (JSON lines on stdout)
  ./mutate.py run [--workers N] [--sample K] [--seed S] [--files substr,...]
                                       run a sample of K mutants; results in out/mutation/results.jsonl
  ./mutate.py report                   summarise out/mutation/results.jsonl as markdown

Nothing here touches /repo: every worker has its own git worktree of /repo and its own copy of
/verif under /tmp (removed when the worker ends). A mutant counts as *realistic* only if the
workspace still compiles and the unedited 34-test suite still passes with it; such a mutant is
then *killed* if one of the quick checks mapped to its file exits 1 (a VIOLATION line),
*inconclusive* if one exits 3 and none exits 1, *survived* otherwise. Survivors are either
equivalent mutants (same behaviour, e.g. a bound that cannot be reached), changes outside the
17 properties, or gaps - they are listed for review, never auto-classified.
"""
import json
import os
import random
import re
import shutil
import subprocess
import sys
import threading
import time

ROOT = os.path.dirname(os.path.abspath(__file__))
REPO = os.environ.get("VERIF_REPO", "/repo")
OUT = os.path.join(ROOT, "out", "mutation")
ENV = dict(os.environ, CARGO_NET_OFFLINE="true")

# file -> checks to run, cheapest and most specific first
MAP = [
    ("yuv/src/bt601.rs", ["C07", "C08", "C13"]),
    ("deblock/src/deblock.rs", ["C16", "C09", "C13"]),
    ("h263/src/decoder/cpu/idct.rs", ["C10", "C02", "C03", "C13", "C01"]),
    ("h263/src/decoder/cpu/rle.rs", ["C11", "C02", "C03", "C01"]),
    ("h263/src/decoder/cpu/mvd_pred.rs", ["C12", "C03", "C01"]),
    ("h263/src/decoder/cpu/gather.rs", ["C12", "C03", "C04", "C13", "C01"]),
    ("h263/src/decoder/state.rs", ["C11", "C12", "C06", "C13", "C02", "C03", "C04", "C05", "C15", "C17", "C01"]),
    ("h263/src/decoder/picture.rs", ["C13", "C06", "C02", "C01"]),
    ("h263/src/parser/reader.rs", ["C14", "C06", "C15", "C05", "C01"]),
    ("h263/src/parser/picture.rs", ["C06", "C02", "C01"]),
    ("h263/src/parser/macroblock.rs", ["C11", "C12", "C02", "C03", "C15", "C01"]),
    ("h263/src/parser/block.rs", ["C11", "C02", "C03", "C01"]),
    ("h263/src/parser/gob.rs", ["C06", "C15", "C01"]),
    ("h263/src/parser/vlc.rs", ["C14", "C11", "C02", "C01"]),
    ("h263/src/types.rs", ["C12", "C06", "C11", "C13", "C03", "C01"]),
]

OPS = [
    (r" < ", [" <= "]), (r" <= ", [" < "]), (r" > ", [" >= "]), (r" >= ", [" > "]),
    (r" == ", [" != "]), (r" != ", [" == "]),
    (r" \+ ", [" - "]), (r" - ", [" + "]), (r" \* ", [" + "]), (r" / ", [" * "]),
    (r" && ", [" || "]), (r" \|\| ", [" && "]),
    (r" << ", [" >> "]), (r" >> ", [" << "]),
    (r" \+= ", [" -= "]), (r" -= ", [" += "]),
    (r" % ", [" / "]),
    (r" & ", [" | "]), (r" \| ", [" & "]),
]
LIT = re.compile(r"(?<![\w.\[])(\d+)(?![\w.\]])")


def code_lines(path):
    """Yield (index, line) of lines that are ordinary code: outside tests, verif-only items, comments."""
    with open(path) as f:
        lines = f.read().split("\n")
    in_tests = False
    skip_depth = None
    depth = 0
    out = []
    pending_verif = False
    in_block_comment = False
    for i, line in enumerate(lines):
        st = line.strip()
        if in_block_comment:
            if "*/" in st:
                in_block_comment = False
            continue
        if st.startswith("/*") and "*/" not in st:
            in_block_comment = True
            continue
        if st.startswith("#[cfg(test)]"):
            in_tests = True
        if in_tests:
            continue
        if st.startswith("#[cfg(feature = \"verif\")]") or st.startswith("#[cfg(all(feature = \"verif\""):
            pending_verif = True
            continue
        opens, closes = line.count("{"), line.count("}")
        if pending_verif:
            # skip the item that follows (one statement or one block)
            if skip_depth is None:
                if opens > closes:
                    skip_depth = depth
                    depth += opens - closes
                    continue
                pending_verif = False
                continue
        if skip_depth is not None:
            depth += opens - closes
            if depth <= skip_depth:
                skip_depth = None
                pending_verif = False
            continue
        depth += opens - closes
        if not st or st.startswith("//") or st.startswith("#[") or st.startswith("use ") or st.startswith("pub use ") or st.startswith("*") or st.startswith("/*"):
            continue
        if "assert" in st or "unreachable!" in st or "panic!" in st:
            continue
        out.append((i, line))
    return lines, out


def gen():
    muts = []
    for rel, checks in MAP:
        path = os.path.join(REPO, rel)
        if not os.path.exists(path):
            continue
        _, cl = code_lines(path)
        for i, line in cl:
            code = line.split("//")[0]
            if '"' in code:
                continue
            for pat, reps in OPS:
                for m in re.finditer(pat, code):
                    for r in reps:
                        new = code[:m.start()] + r + code[m.end():] + line[len(code):]
                        muts.append({"file": rel, "line": i + 1, "op": pat.strip().replace("\\", "") + "->" + r.strip(), "before": line.strip(), "after": new.strip(), "new_line": new})
            for m in LIT.finditer(code):
                v = int(m.group(1))
                if v > 70000:
                    continue
                for nv in ([v + 1] if v == 0 else [v + 1, v - 1]):
                    new = code[:m.start()] + str(nv) + code[m.end():] + line[len(code):]
                    muts.append({"file": rel, "line": i + 1, "op": "%d->%d" % (v, nv), "before": line.strip(), "after": new.strip(), "new_line": new})
    for k, m in enumerate(muts):
        m["id"] = k
    return muts


def sh(cmd, cwd, timeout, env=None):
    try:
        p = subprocess.run(cmd, cwd=cwd, env=env or ENV, stdout=subprocess.PIPE, stderr=subprocess.STDOUT, text=True, timeout=timeout)
        return p.returncode, p.stdout
    except subprocess.TimeoutExpired as e:
        return 124, (e.stdout or "") if isinstance(e.stdout, str) else ""


def worker(wid, queue, lock, results_path):
    base = "/tmp/mutw%d" % wid
    shutil.rmtree(base, ignore_errors=True)
    os.makedirs(base)
    repo = os.path.join(base, "repo")
    verif = os.path.join(base, "verif")
    sh(["git", "-C", REPO, "worktree", "add", "--detach", repo, "HEAD", "-q"], "/", 120)
    shutil.copy(os.path.join(REPO, "Cargo.lock"), os.path.join(repo, "Cargo.lock"))
    shutil.copytree(ROOT, verif, ignore=shutil.ignore_patterns("target", "out", "seeded", "replays", ".git", "corpus", "artifacts"))
    for rel in ("harness/Cargo.toml", "harness/fuzz/Cargo.toml"):
        p = os.path.join(verif, rel)
        s = open(p).read().replace("/repo/", repo + "/")
        open(p, "w").write(s)
    os.makedirs(os.path.join(verif, "out"), exist_ok=True)
    env = dict(ENV, VERIF_STAGES="chk", VERIF_SEED="1")
    sh(["./check", "build", "chk"], verif, 1800, env)
    sh(["cargo", "test", "--workspace", "--offline", "--no-run"], repo, 1800)
    try:
        while True:
            with lock:
                if not queue:
                    break
                m = queue.pop()
            t0 = time.time()
            path = os.path.join(repo, m["file"])
            sh(["git", "checkout", "--", "."], repo, 60)
            lines = open(path).read().split("\n")
            lines[m["line"] - 1] = m["new_line"]
            open(path, "w").write("\n".join(lines))
            res = {"id": m["id"], "file": m["file"], "line": m["line"], "op": m["op"], "before": m["before"], "after": m["after"]}
            rc, out = sh(["cargo", "test", "--workspace", "--offline", "--no-fail-fast"], repo, 900)
            if rc != 0:
                res["status"] = "invalid:does-not-compile" if ("could not compile" in out or "error[" in out or "error:" in out and "test result" not in out) else ("killed-by-suite" if rc != 124 else "killed-by-suite:timeout")
            else:
                res["status"] = "survived"
                res["checks"] = {}
                checks = dict(MAP)[m["file"]]
                for c in checks:
                    rc, out = sh(["./check", c, "quick"], verif, 1500, env)
                    sig = ""
                    for l in out.splitlines():
                        if l.startswith("  ") and sig == "" and ("VIOLATION" in out):
                            sig = l.strip()[:200]
                    first = [l for l in out.splitlines() if l.startswith("VIOLATION") or l.startswith("INCONCLUSIVE") or l.startswith("OK") or l.startswith("KNOWN")]
                    res["checks"][c] = {"rc": rc, "line": (first[0] if first else out[-200:])[:200]}
                    if rc == 1:
                        res["status"] = "killed"
                        res["killed_by"] = c
                        try:
                            ev = json.load(open(os.path.join(verif, "evidence", c + ".json")))
                            res["signatures"] = ev["coverage"].get("violation_signatures", [])[:4]
                        except Exception:
                            pass
                        break
                    if rc == 124:
                        res["status"] = "timeout"
                        res["killed_by"] = c
                        break
                    if rc == 3 and res["status"] == "survived":
                        res["status"] = "inconclusive"
            res["seconds"] = round(time.time() - t0, 1)
            with lock:
                with open(results_path, "a") as f:
                    f.write(json.dumps(res) + "\n")
                print("[w%d] #%d %s:%d %s  =>  %s %s (%.0fs)" % (wid, m["id"], m["file"], m["line"], m["op"], res["status"], res.get("killed_by", ""), res["seconds"]), flush=True)
    finally:
        sh(["git", "-C", REPO, "worktree", "remove", "--force", repo], "/", 120)
        sh(["git", "-C", REPO, "worktree", "prune"], "/", 60)
        shutil.rmtree(base, ignore_errors=True)


def run(args):
    def opt(name, default):
        return args[args.index(name) + 1] if name in args else default
    workers = int(opt("--workers", "4"))
    k = int(opt("--sample", "100"))
    seed = int(opt("--seed", "1"))
    files = opt("--files", "")
    muts = gen()
    if files:
        muts = [m for m in muts if any(s in m["file"] for s in files.split(","))]
    os.makedirs(OUT, exist_ok=True)
    results_path = os.path.join(OUT, "results.jsonl")
    done = set()
    if os.path.exists(results_path):
        for l in open(results_path):
            try:
                done.add(json.loads(l)["id"])
            except Exception:
                pass
    rnd = random.Random(seed)
    rnd.shuffle(muts)
    # stratified: at most `--per-file` mutants per source file, so the large code tables do not crowd out the rest
    per_file = int(opt("--per-file", "1000000"))
    seen = {}
    strat = []
    for m in muts:
        seen[m["file"]] = seen.get(m["file"], 0) + 1
        if seen[m["file"]] <= per_file:
            strat.append(m)
    queue = [m for m in strat if m["id"] not in done][:k]
    queue.reverse()
    print("%d candidate mutants, %d already done, running %d on %d workers" % (len(muts), len(done), len(queue), workers), flush=True)
    lock = threading.Lock()
    ts = [threading.Thread(target=worker, args=(i, queue, lock, results_path)) for i in range(workers)]
    for t in ts:
        t.start()
    for t in ts:
        t.join()


def report():
    rs = [json.loads(l) for l in open(os.path.join(OUT, "results.jsonl"))]
    # a mutant is identified by (file, line, operator, mutated text); later runs replace earlier ones
    uniq = {}
    for r in rs:
        uniq[(r["file"], r["line"], r["op"], r["after"])] = r
    rs = list(uniq.values())
    by = {}
    for r in rs:
        by.setdefault(r["file"], []).append(r)
    tot = {}
    print("| file | mutants run | do not compile | killed by the 34 tests | realistic (pass the suite) | killed by a check | inconclusive | survived |")
    print("|---|---|---|---|---|---|---|---|")
    for f, l in sorted(by.items()):
        c = lambda pre: sum(1 for r in l if r["status"].startswith(pre))
        real = c("killed") - c("killed-by-suite") + c("survived") + c("inconclusive") + c("timeout")
        print("| %s | %d | %d | %d | %d | %d | %d | %d |" % (f, len(l), c("invalid"), c("killed-by-suite"), real, c("killed") - c("killed-by-suite") + c("timeout"), c("inconclusive"), c("survived")))
    print()
    print("Killing check of the realistic mutants: " + ", ".join("%s %d" % (k, v) for k, v in sorted({kb: sum(1 for r in rs if r.get("killed_by") == kb and r["status"] in ("killed", "timeout")) for kb in set(r.get("killed_by") for r in rs if r.get("killed_by"))}.items())))
    print()
    print("Survivors and inconclusive ones (for review):")
    print()
    for r in rs:
        if r["status"] in ("survived", "inconclusive"):
            print("* `%s:%d` %s: `%s` -> `%s` (%s)" % (r["file"], r["line"], r["op"], r["before"][:90], r["after"][:90], r["status"]))


if __name__ == "__main__":
    if len(sys.argv) < 2:
        raise SystemExit(__doc__)
    if sys.argv[1] == "gen":
        for m in gen():
            print(json.dumps({k: v for k, v in m.items() if k != "new_line"}))
    elif sys.argv[1] == "run":
        run(sys.argv[2:])
    elif sys.argv[1] == "report":
        report()
    else:
        raise SystemExit(__doc__)
