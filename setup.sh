#!/bin/sh
# Offline build of the harness in the profiles the quick checks use.
# (Sanitizer/Miri profiles are built on first use by the checks that need them;
# building them here keeps the first quick check fast.)
set -e
cd "$(dirname "$0")"
export CARGO_NET_OFFLINE=true
./check build chk rel asan
