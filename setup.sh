#!/bin/sh
# Offline build of the harness in the profiles the quick checks use (overflow-checked,
# release, ASan) plus the Miri build of the same binary. Profiles needed only by thorough
# tiers (TSan, fuzz target) are built on first use.
set -e
cd "$(dirname "$0")"
export CARGO_NET_OFFLINE=true
./check build chk rel abt asan
# Miri: build the interpreter's copy of the harness (the trailing command is a no-op that exits 2)
(cd harness && MIRIFLAGS="-Zmiri-disable-isolation" cargo +nightly miri run --offline --target-dir target/miri -- list-nothing >/dev/null 2>&1 || true)
echo "setup done"
