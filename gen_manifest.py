#!/usr/bin/env python3
"""Regenerates MANIFEST.json from the table below (kept in one place so the
manifest, the check script and DESIGN.md cannot drift apart)."""
import json, subprocess

HOOK_COMMITS = ["1784542", "85e93e9", "d564f5c"]

DIFF = "differential monitor against an independent executable model"
CHECKS = {
 "C01": ("crash/UB oracle under hostile input: in-process panic capture + worker-process boundary (abort, signal, stall) + macroblock-loop progress hook; overflow-checked, release and ASan builds (thorough: + Miri, valgrind memcheck, libFuzzer on raw bytes and on the hostile generator's decision tape)",
         "Held-on-observed: every decode call of every generated hostile history returned Ok/Err without panic, abort, sanitizer report or a non-consuming loop iteration. Reach comes from structure-aware hostile generation (mutated valid pictures, semantic extremes, random bytes) over all four option combinations and multi-call histories; it is sampling, not proof.", "3 C01"),
 "C02": (DIFF + " (spec-derived encoder + f64 reconstruction) on generated valid intra pictures; overflow-checked and release builds (thorough: + coverage-guided libFuzzer campaign on the case generator's decision tape)",
         "Held-on-observed: every generated valid intra picture decoded to exactly the model's planes (one-off differences only inside the stated rounding-boundary window). Tables are typed in from the standard and cross-checked codeword by codeword against the real tree walker.", "3 C02"),
 "C03": (DIFF + ": one-step motion-compensated prediction from the planes the decoder actually produced for the reference, plus residual; generated P-picture chains with interludes (rejected inputs, disposable pictures) (thorough: + coverage-guided libFuzzer campaign on the case generator's decision tape)",
         "Held-on-observed over generated chains: all macroblock types, half-sample phases, vectors leaving the picture, truncation and missing-reference rejection were observed and matched.", "3 C03"),
 "C04": ("history checked against a two-register sequential model (last / reference); content-identified predictions over every earlier picture, get_reference_picture() compared after every step (thorough: + coverage-guided libFuzzer campaign on the case generator's decision tape)",
         "Held-on-observed: in every generated history (bounded-exhaustive short ones + random long ones, five temporal-reference policies) each predicted picture was explained by the model's reference picture and by no other stored picture, and the most recent picture always equalled the model's.", "3 C04"),
 "C05": ("twin-run comparison + snapshot/rollback checks + growing-source split delivery (fault injection at chosen syntax depth) (thorough: + coverage-guided libFuzzer campaign on the case generator's decision tape)",
         "Held-on-observed: for every injected failure (header / macroblock header / block data / prediction / truncation) the decoder that saw it stayed indistinguishable from its twin, the shared reader was back at its pre-call bit position, and every byte split point retried to the one-shot result.", "3 C05"),
 "C06": (DIFF + " of the picture headers: per-field exhaustive sweeps, OPPTYPE/PTYPE bit-pattern sweeps, CPFMT sweep, random combinations, inheritance pairs and header chains, marker flips, decoder-level histories; exact consumed-bit count via the reader-position hook",
         "Held-on-observed except the recorded finding (ETR/TRB width with an inherited custom picture clock): every other generated header was reported field for field and consumed exactly its bits; every single marker-bit flip was rejected.", "3 C06"),
 "C07": ("exhaustive enumeration of all 2^24 colours through both code paths of the real converter, compared with a fixed-point model whose coefficients are computed from the BT.601 constants",
         "Exhaustive on both tiers for the finite domain (every triple through the vector body and through the remainder path); thorough repeats slices under ASan and Miri.", "3 C07"),
 "C08": (DIFF + " over a dense width x height box and strips; overflow-checked, release, ASan and Miri builds",
         "Held-on-observed for every size in the box (all residues mod 4 / mod 2, 1-pixel rows/columns) with seven fills, strips and widths up to 2^24 (2^25 thorough); the SIMD and bytemuck paths also ran under Miri and ASan.", "3 C08"),
 "C09": (DIFF + " (scalar edge-by-edge Annex J) through deblock() only: kernel patterns in vector lanes and scalar remainders of both passes, dense geometry box; chk, release, ASan, Miri",
         "Held-on-observed: quick covers a 2^20 lattice plus ~2 M scrambled patterns x 12 strengths x both paths and every size in 1..40 with eight contents; thorough enumerates all 2^32 patterns x 12 strengths through the horizontal-edge path.", "3 C09"),
 "C10": ("Annex A (IEEE 1180) statistical accuracy procedure run on the hooked channel IDCT, plus peak-error checks of the sparse-block shortcuts, mixed block sequences and cropped block grids",
         "Held-on-observed: the five Annex A statistics for the six prescribed data sets (and further generator seeds) are within bounds; all DC-only blocks and random row/column blocks obey the peak bound.", "3 C10"),
 "C11": ("exhaustive enumeration at three observation stages: block parser (events), hooked dequantiser (exact coefficients), end-to-end pictures (samples)",
         "Stage B is exhaustive over 31 x 2046 x (64+63) cases; stages A and C enumerate all codable events / INTRADC codes / DQUANT updates, DQUANT chains of length 2-3 and Sorenson version-mix histories.", "3 C11"),
 "C12": ("exhaustive directed P pictures over an identifiable textured reference (zero residual), compared with the model prediction",
         "Exhaustive for the 64 x 64 predictor/differential pairs per component and all four-vector sums; neighbour configurations are enumerated by class with random vectors; wide pictures and mode histories are sampled.", "3 C12"),
 "C13": ("end-to-end pipeline monitor (decode -> deblock x3 -> convert) over every picture size in a dense box; chk (debug assertions live), release, ASan (thorough: + coverage-guided libFuzzer campaign on the case generator's decision tape)",
         "Held-on-observed for every size in the box and the fixed formats, intra and predicted pictures, second pictures of another size on the same decoder, and a sample-count ladder beyond 2^24.", "3 C13"),
 "C14": ("operation histories checked in lockstep against a bit-vector sequential model, with the reader-position hook; bounded-exhaustive short sequences + random trees; chunked, growing and interrupting sources (thorough: + coverage-guided libFuzzer campaign on the case generator's decision tape)",
         "Held-on-observed: every value, error and absolute position agreed with the model; start-code recognition judged on the property's own terms.", "3 C14"),
 "C15": ("twin-run comparison (shared reader vs one reader per picture) + reader-position window check after every call (thorough: + coverage-guided libFuzzer campaign on the case generator's decision tape)",
         "Held-on-observed for generated sequences of 2-8 pictures in both modes with all eight end-of-data bit phases (standard mode also with early-ending and format-less pictures).", "3 C15"),
 "C16": ("exhaustive enumeration of width x height x strength through deblock() (no panic, same length, equals Annex J) + Table J.2 comparison; chk, release, ASan, Miri",
         "Exhaustive over the stated box (1..72 x 0..72 x 12 quick; 1..300 x 0..300 x 12 thorough) with random and full-contrast content, all 31 table entries; a sample-count ladder up to 67 M samples is sampled.", "3 C16"),
 "C17": ("replica comparison under multi-threaded stress with seed-driven delays and cross-process baselines; Miri (many scheduler seeds) and ThreadSanitizer as race detectors",
         "Held-on-observed: all replicas on 2/4/16 threads, a second in-process pass and two fresh processes produced the baseline digests; no data race was reported by Miri (quick) or TSan (thorough). Schedules are sampled, not enumerated.", "3 C17"),
}
NOT_YET = {}

def main():
    props = [json.loads(l) for l in open("properties.jsonl")]
    checks, na = [], []
    for p in props:
        pid = p["id"]
        if pid in CHECKS:
            tech, text, ref = CHECKS[pid]
            checks.append({
                "property_id": pid,
                "quick_cmd": "./check %s quick" % pid,
                "thorough_cmd": "./check %s thorough" % pid,
                "evidence_file": "/verif/evidence/%s.json" % pid,
                "replay_cmd_template": "./check replay {path}",
                "engine": "hv",
                "level_claimed": {"category": "exploration", "text": text, "design_ref": "DESIGN.md section " + ref},
                "level_note": "Trusted: the independent model in harness/src/model (written from ITU-T H.263 and the Sorenson header layout), rustc, and that the generators' classes listed in the evidence coverage counters are representative. Nothing is claimed about inputs the workloads did not produce.",
                "technique": tech,
            })
        else:
            na.append({"property_id": pid, "reason": NOT_YET.get(pid, "check under construction in this session; not claimed until its monitor is committed")})
    m = {
        "version": 1,
        "setup_cmd": "./setup.sh",
        "hooks": {
            "guard": "cargo feature 'verif' of crate h263-rs (off by default)",
            "enable": "the harness depends on h263-rs by path with features = [\"verif\"] (harness/Cargo.toml)",
            "baseline_off_cmd": "cd /repo && cargo test --workspace --no-fail-fast --offline",
            "source_commits": HOOK_COMMITS,
            "add_only": True,
        },
        "engines": [{"name": "hv", "path": "/verif/harness", "serves_properties": sorted(CHECKS), "kind_free_text": "Rust harness: independent model + generators + per-property runtime monitors; driven by /verif/check (stages: overflow-checked, release, ASan, Miri, TSan builds)"}],
        "checks": checks,
        "not_applicable": na,
        "notes": "Runtime monitoring and sanitizers only. Exit codes: 0 held on everything explored, 1 violation (VIOLATION line), 3 inconclusive (INCONCLUSIVE line; never folded into the other two). Known findings: known_findings.json.",
    }
    json.dump(m, open("MANIFEST.json", "w"), indent=1)
    print("wrote MANIFEST.json with", len(checks), "checks,", len(na), "not_applicable")

main()
