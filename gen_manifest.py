#!/usr/bin/env python3
"""Regenerates MANIFEST.json from the table below (kept in one place so the
manifest, the check script and DESIGN.md cannot drift apart)."""
import json, subprocess

HOOK_COMMITS = ["1784542", "85e93e9", "d564f5c"]

CHECKS = {
 "C01": ("crash/UB oracle under hostile input: in-process panic capture + worker-process boundary (abort, signal, stall) + macroblock-loop progress hook; chk (overflow checks), release and ASan builds",
         "Held-on-observed: every decode call of every generated hostile history returned Ok/Err without panic, abort, sanitizer report or a non-consuming loop iteration. Reach comes from structure-aware hostile generation (mutated valid pictures, semantic extremes, random bytes) over all four option combinations and multi-call histories; it is sampling, not proof.",
         "3 C01"),
 "C02": ("differential monitor against an independent executable model (spec-derived encoder + f64 reconstruction) on generated valid intra pictures; chk and release builds",
         "Held-on-observed: every generated valid intra picture decoded to exactly the model's planes (one-off differences only inside the stated rounding-boundary window). Tables/model are typed in from the standard and cross-checked codeword by codeword against the real tree walker.",
         "3 C02"),
}
NOT_YET = {}

def main():
    props = [json.loads(l) for l in open("properties.jsonl")]
    checks, na = [], []
    for p in props:
        pid = p["id"]
        if pid in CHECKS:
            tech, text, ref = CHECKS[pid]
            checks.append({
                "property_id": pid,
                "quick_cmd": "./check %s quick" % pid,
                "thorough_cmd": "./check %s thorough" % pid,
                "evidence_file": "/verif/evidence/%s.json" % pid,
                "replay_cmd_template": "./check replay {path}",
                "engine": "hv",
                "level_claimed": {"category": "exploration", "text": text, "design_ref": "DESIGN.md section " + ref},
                "level_note": "Trusted: the independent model in harness/src/model (written from ITU-T H.263 and the Sorenson header layout), rustc, and that the generators' classes listed in the evidence coverage counters are representative. Nothing is claimed about inputs the workloads did not produce.",
                "technique": tech,
            })
        else:
            na.append({"property_id": pid, "reason": NOT_YET.get(pid, "check under construction in this session; not claimed until its monitor is committed")})
    m = {
        "version": 1,
        "setup_cmd": "./setup.sh",
        "hooks": {
            "guard": "cargo feature 'verif' of crate h263-rs (off by default)",
            "enable": "the harness depends on h263-rs by path with features = [\"verif\"] (harness/Cargo.toml)",
            "baseline_off_cmd": "cd /repo && cargo test --workspace --no-fail-fast --offline",
            "source_commits": HOOK_COMMITS,
            "add_only": True,
        },
        "engines": [{"name": "hv", "path": "/verif/harness", "serves_properties": sorted(CHECKS), "kind_free_text": "Rust harness: independent model + generators + per-property runtime monitors; driven by /verif/check (stages: overflow-checked, release, ASan, Miri, TSan builds)"}],
        "checks": checks,
        "not_applicable": na,
        "notes": "Runtime monitoring and sanitizers only. Exit codes: 0 held on everything explored, 1 violation (VIOLATION line), 3 inconclusive (INCONCLUSIVE line; never folded into the other two). Known findings: known_findings.json.",
    }
    json.dump(m, open("MANIFEST.json", "w"), indent=1)
    print("wrote MANIFEST.json with", len(checks), "checks,", len(na), "not_applicable")

main()
